"""G6 - MOL2 molecules from a fragment grammar; formal charges known by construction.

All randomness comes from a list of integers drawn by Hypothesis (`Chooser`),
so molecules shrink and replay like any other case.
"""

from collections import defaultdict


class Chooser:
    def __init__(self, ints):
        self.ints = list(ints) or [0]
        self.k = 0

    def pick(self, n):
        v = self.ints[self.k % len(self.ints)]
        self.k += 1
        return v % n

    def choice(self, seq):
        return seq[self.pick(len(seq))]

    def chance(self, num, den):
        return self.pick(den) < num

    def shuffle(self, n):
        order = list(range(n))
        for i in range(n - 1, 0, -1):
            j = self.pick(i + 1)
            order[i], order[j] = order[j], order[i]
        return order


class Mol:
    def __init__(self):
        self.atoms = []  # dict(type, formal)
        self.bonds = []  # (i, j, order) order in "1","2","3","ar","am"
        self.features = set()

    def add(self, typ, formal=0.0):
        self.atoms.append(dict(type=typ, formal=formal))
        return len(self.atoms) - 1

    def bond(self, i, j, order="1"):
        self.bonds.append((i, j, order))


def hydrogens(m, i, n):
    for _ in range(n):
        h = m.add("H")
        m.bond(i, h)


KINDS = ["methyl", "ethyl", "oh", "nh3+", "coo-", "co", "cn", "f", "cl", "br", "i", "phenyl", "amide",
         "ether", "thioether", "sh", "nh2", "so2me", "pyridyl", "chain", "cyclohexyl", "nme3+", "vinyl",
         "thione", "imine"]  # fmt: skip
LEAF = ["methyl", "oh", "f", "cl", "nh3+", "coo-"]


def grow(m, c, attach, depth):
    """Attach a substituent to heavy atom `attach` (one free valence reserved)."""
    kind = c.choice(KINDS if depth < 3 else LEAF)
    m.features.add(kind)
    if kind == "methyl":
        a = m.add("C.3")
        m.bond(attach, a)
        hydrogens(m, a, 3)
    elif kind == "ethyl":
        a = m.add("C.3")
        m.bond(attach, a)
        hydrogens(m, a, 2)
        b = m.add("C.3")
        m.bond(a, b)
        hydrogens(m, b, 3)
    elif kind == "chain":
        a = m.add("C.3")
        m.bond(attach, a)
        hydrogens(m, a, 1)
        grow(m, c, a, depth + 1)
        grow(m, c, a, depth + 1)
    elif kind == "oh":
        o = m.add("O.3")
        m.bond(attach, o)
        hydrogens(m, o, 1)
    elif kind == "sh":
        s = m.add("S.3")
        m.bond(attach, s)
        hydrogens(m, s, 1)
    elif kind == "nh2":
        n = m.add("N.3")
        m.bond(attach, n)
        hydrogens(m, n, 2)
    elif kind == "nh3+":
        n = m.add("N.4", 1.0)
        m.bond(attach, n)
        hydrogens(m, n, 3)
    elif kind == "nme3+":
        n = m.add("N.4", 1.0)
        m.bond(attach, n)
        for _ in range(3):
            a = m.add("C.3")
            m.bond(n, a)
            hydrogens(m, a, 3)
    elif kind == "coo-":
        a = m.add("C.2")
        m.bond(attach, a)
        o1 = m.add("O.co2", -0.5)
        o2 = m.add("O.co2", -0.5)
        if c.chance(1, 2):
            m.bond(a, o1, "ar")
            m.bond(a, o2, "ar")
        else:
            m.bond(a, o1, "2")
            m.bond(a, o2, "1")
    elif kind == "co":
        a = m.add("C.2")
        m.bond(attach, a)
        o = m.add("O.2")
        m.bond(a, o, "2")
        grow(m, c, a, depth + 1)
    elif kind == "thione":
        a = m.add("C.2")
        m.bond(attach, a)
        s = m.add("S.2")
        m.bond(a, s, "2")
        grow(m, c, a, depth + 1)
    elif kind == "imine":
        a = m.add("C.2")
        m.bond(attach, a)
        hydrogens(m, a, 1)
        n = m.add("N.2")
        m.bond(a, n, "2")
        grow(m, c, n, depth + 1)
    elif kind == "vinyl":
        a = m.add("C.2")
        m.bond(attach, a)
        hydrogens(m, a, 1)
        b = m.add("C.2")
        m.bond(a, b, "2")
        hydrogens(m, b, 2)
    elif kind == "cn":
        a = m.add("C.1")
        m.bond(attach, a)
        n = m.add("N.1")
        m.bond(a, n, "3")
    elif kind in ("f", "cl", "br", "i"):
        x = m.add({"f": "F", "cl": "Cl", "br": "Br", "i": "I"}[kind])
        m.bond(attach, x)
    elif kind in ("phenyl", "pyridyl"):
        ring = [m.add("C.ar") for _ in range(6)]
        if kind == "pyridyl":
            m.atoms[ring[3]]["type"] = "N.ar"
        for k in range(6):
            m.bond(ring[k], ring[(k + 1) % 6], "ar")
        m.bond(attach, ring[0])
        for k in range(1, 6):
            if m.atoms[ring[k]]["type"] == "N.ar":
                continue
            if depth < 2 and c.chance(1, 5):
                grow(m, c, ring[k], depth + 2)
            else:
                hydrogens(m, ring[k], 1)
    elif kind == "cyclohexyl":
        ring = [m.add("C.3") for _ in range(6)]
        for k in range(6):
            m.bond(ring[k], ring[(k + 1) % 6], "1")
        m.bond(attach, ring[0])
        hydrogens(m, ring[0], 1)
        for k in range(1, 6):
            hydrogens(m, ring[k], 2)
    elif kind == "amide":
        a = m.add("C.2")
        m.bond(attach, a)
        o = m.add("O.2")
        m.bond(a, o, "2")
        n = m.add("N.am")
        m.bond(a, n, "1")  # the 'am' bond type is documented as unsupported
        hydrogens(m, n, 1)
        grow(m, c, n, depth + 1)
    elif kind == "ether":
        o = m.add("O.3")
        m.bond(attach, o)
        grow(m, c, o, depth + 1)
    elif kind == "thioether":
        s = m.add("S.3")
        m.bond(attach, s)
        grow(m, c, s, depth + 1)
    elif kind == "so2me":
        s = m.add("S.o2")
        m.bond(attach, s)
        o1 = m.add("O.2")
        o2 = m.add("O.2")
        m.bond(s, o1, "2")
        m.bond(s, o2, "2")
        a = m.add("C.3")
        m.bond(s, a)
        hydrogens(m, a, 3)


def random_mol(c: Chooser, max_atoms=60):
    m = Mol()
    a = m.add("C.3")
    nsub = 1 + c.pick(4)
    hydrogens(m, a, 4 - nsub)
    for _ in range(nsub):
        if len(m.atoms) > max_atoms:
            hydrogens(m, a, 1)
        else:
            grow(m, c, a, 0)
    return m


def coords(i):
    return ((i * 1.3) % 7.0 + 0.37 * (i // 5), (i * 0.7) % 5.0 + i * 0.11, (i * 2.1) % 6.0 + 0.29 * (i // 7))


def relayout(text, style):
    """Legal layout variants of a MOL2 text: 'crlf', 'tabs' (fields separated by tabs), 'blank-atom' /
    'blank-bond' (an empty line in the middle of the ATOM / BOND block), 'trailing' (trailing blanks)."""
    lines = text.split("\n")
    if style == "tabs":
        lines = ["\t".join(ln.split()) if ln and not ln.startswith("@") and len(ln.split()) >= 4 else ln for ln in lines]
    elif style in ("blank-atom", "blank-bond"):
        tag = "@<TRIPOS>ATOM" if style == "blank-atom" else "@<TRIPOS>BOND"
        start = lines.index(tag)
        end = next(k for k in range(start + 1, len(lines)) if lines[k].startswith("@"))
        if end - start > 2:
            lines.insert(start + 1 + (end - start - 1) // 2, "")
    elif style == "trailing":
        lines = [ln + "   " if ln else ln for ln in lines]
    out = "\n".join(lines)
    if style == "crlf":
        out = out.replace("\n", "\r\n")
    return out


def to_mol2(m, names, order=None, bond_order=None, flips=None, resname="LIG"):
    """names by original index; order = file order of atoms; flips = per-bond endpoint swap."""
    n = len(m.atoms)
    order = order or list(range(n))
    bond_order = bond_order or list(range(len(m.bonds)))
    pos = {orig: k + 1 for k, orig in enumerate(order)}
    out = ["@<TRIPOS>MOLECULE", resname, f"{n} {len(m.bonds)} 1", "SMALL", "USER_CHARGES", "", "@<TRIPOS>ATOM"]
    for k, orig in enumerate(order):
        a = m.atoms[orig]
        x, y, z = coords(orig)
        out.append(f"{k + 1:7d} {names[orig]:<6s} {x:9.4f} {y:9.4f} {z:9.4f} {a['type']:<6s} 1 {resname} {0.0:9.4f}")
    out.append("@<TRIPOS>BOND")
    for k, bi in enumerate(bond_order):
        i, j, o = m.bonds[bi]
        if flips and flips[k % len(flips)]:
            i, j = j, i
        out.append(f"{k + 1:6d} {pos[i]:5d} {pos[j]:5d} {o}")
    out.append("@<TRIPOS>SUBSTRUCTURE")
    out.append(f"1 {resname} 1")
    return "\n".join(out) + "\n"


def wl_classes(m, rounds=8):
    """Weisfeiler-Lehman colour classes (coarser than symmetry orbits)."""
    adj = defaultdict(list)
    for i, j, o in m.bonds:
        adj[i].append((j, o))
        adj[j].append((i, o))
    col = [a["type"] for a in m.atoms]
    for _ in range(rounds):
        new = []
        for i in range(len(m.atoms)):
            new.append(repr((col[i], sorted((col[j], o) for j, o in adj[i]))))
        # compress
        table = {v: str(k) for k, v in enumerate(sorted(set(new)))}
        col = [table[v] for v in new]
    return col


def default_names(m):
    return [f"{m.atoms[i]['type'].split('.')[0].upper()}{i + 1}" for i in range(len(m.atoms))]
