"""O4 - independent readers written from the format descriptions.

* PDB coordinate records by wwPDB columns.
* PQR in pdb2pqr's default fixed-column layout.
* PQR in whitespace-separated layout (APBS "flexible" format).
"""

import re

_SEQ = re.compile(r"^([+-]?\d+)([A-Za-z]?)$")


def pdb_atom(line):
    """ATOM/HETATM record -> dict (wwPDB 3.3 columns; trailing columns optional)."""
    line = line.rstrip("\r\n")
    pad = line.ljust(80)
    return dict(
        rec=pad[0:6].strip(),
        serial=pad[6:11].strip(),
        name=pad[12:16].strip(),
        alt=pad[16],
        resn=pad[17:20].strip(),
        chain=pad[21],
        seq=int(pad[22:26]),
        icode=pad[26],
        x=float(pad[30:38]),
        y=float(pad[38:46]),
        z=float(pad[46:54]),
    )


def pqr_fixed(line):
    """pdb2pqr default PQR layout (PDB columns up to z, then charge[8] radius[7])."""
    pad = line.rstrip("\r\n").ljust(69)
    return dict(
        rec=pad[0:6].strip(),
        serial=int(pad[6:11]),
        name=pad[12:16].strip(),
        resn=pad[16:20].strip(),
        chain=pad[21].strip(),
        seq=int(pad[22:26]),
        icode=pad[26].strip(),
        x=float(pad[30:38]),
        y=float(pad[38:46]),
        z=float(pad[46:54]),
        q=float(pad[54:62]),
        r=float(pad[62:69]),
        xs=pad[30:38],
        ys=pad[38:46],
        zs=pad[46:54],
        qs=pad[54:62],
        rs=pad[62:69],
    )


def pqr_tokens(line):
    """Whitespace PQR: rec serial name resn [chain] seq[icode] x y z q r."""
    w = line.split()
    if len(w) not in (10, 11):
        raise ValueError(f"{len(w)} tokens")
    rec, serial, name, resn = w[0], int(w[1]), w[2], w[3]
    rest = w[4:]
    chain = ""
    if len(rest) == 7:
        chain = rest.pop(0)
    m = _SEQ.match(rest[0])
    if m is None:
        raise ValueError(f"residue number token {rest[0]!r}")
    return dict(
        rec=rec, serial=serial, name=name, resn=resn, chain=chain, seq=int(m.group(1)),
        icode=m.group(2), x=float(rest[1]), y=float(rest[2]), z=float(rest[3]),
        q=float(rest[4]), r=float(rest[5]),
        xs=rest[1], ys=rest[2], zs=rest[3], qs=rest[4], rs=rest[5],
    )  # fmt: skip


def read_pqr_text(text, whitespace):
    out = []
    for ln in text.splitlines():
        if ln.startswith(("ATOM", "HETATM")):
            out.append(pqr_tokens(ln) if whitespace else pqr_fixed(ln))
    return out


def read_pdb_first_model(text):
    """Independent ingestion model for C07: ATOM/HETATM of the first model, one
    atom per (chain, seq, icode, name): the first listed alternate location."""
    atoms = []
    seen = set()
    models = 0
    for raw in text.replace("\r\n", "\n").replace("\r", "\n").split("\n"):
        rec = raw[:6].strip() if raw.strip() else ""
        if rec == "MODEL":
            models += 1
            if models > 1:
                break
        elif rec == "ENDMDL":
            if models >= 1:
                break
        elif rec in ("ATOM", "HETATM"):
            a = pdb_atom(raw)
            key = (a["chain"], a["seq"], a["icode"], a["name"])
            if key in seen:
                continue
            seen.add(key)
            atoms.append(a)
    return atoms


def selftest():
    a = pdb_atom("ATOM      1  N   ALA A   1      11.104   6.134  -6.504  1.00  0.00           N  ")
    assert (a["name"], a["resn"], a["chain"], a["seq"], a["x"], a["z"]) == ("N", "ALA", "A", 1, 11.104, -6.504)
    f = pqr_fixed("ATOM      1  N   ALA     1      11.104   6.134  -6.504  0.1414 1.8240")
    assert f["q"] == 0.1414 and f["r"] == 1.824 and f["chain"] == "" and f["seq"] == 1
    t = pqr_tokens("ATOM 1 N ALA A 52B 11.104 6.134 -6.504 0.1414 1.8240")
    assert t["chain"] == "A" and t["seq"] == 52 and t["icode"] == "B"
    t = pqr_tokens("HETATM 7 O HOH -3 1 2 3 -0.8 1.5")
    assert t["chain"] == "" and t["seq"] == -3
