"""O1 - independent model of force-field parameter resolution.

DAT rows -> table; .names sections applied in document order as documented in
docs/source/formats/xml-names.rst: regular expressions on canonical residue
names (anchored with ``$``), ``$group`` substitution, cumulative ``useresname``
sections, atom aliases on every residue the expression matches.

Nothing of pdb2pqr is imported here.
"""

import re
import xml.etree.ElementTree as ET
from functools import lru_cache

from . import topo

FFS = ["AMBER", "CHARMM", "PARSE", "TYL06", "PEOEPB", "SWANSON"]
NUCLEOTIDES = ["RA", "RC", "RG", "RU", "DA", "DC", "DG", "DT"]


def universe():
    """Canonical residue-state names (chemistry, not pdb2pqr's definition map)."""
    names = []
    cores = topo.AA20 + topo.VARIANTS + ["CYX"]
    for c in cores:
        for prefix in ("", "N", "C", "NEUTRAL-N", "NEUTRAL-C"):
            names.append(prefix + c)
    names += ["WAT", "HOH"]
    for n in NUCLEOTIDES:
        names += [n, n + "3", n + "5"]
    return names


def load_dat(text):
    table = {}
    for line in text.splitlines():
        if line.startswith("#"):
            continue
        f = line.split()
        if not f:
            continue
        table.setdefault(f[0], {})[f[1]] = (float(f[2]), float(f[3]))
    return table


def resolve_text(dat_text, names_text, canonical_names):
    """canonical residue -> canonical atom -> (q, r, native residue, native atom)."""
    dat = load_dat(dat_text)
    view = {r: {a: (r, a) for a in atoms} for r, atoms in dat.items()}
    root = ET.fromstring(names_text)
    for sec in root.findall("residue"):
        pat = (sec.findtext("name") or "").strip()
        use = sec.findtext("useresname")
        use = use.strip() if use is not None else None
        rx = re.compile(pat + "$")
        if use is not None:
            for cn in canonical_names:
                m = rx.match(cn)
                if not m:
                    continue
                if "$group" in use:
                    src = use.replace("$group", m.group(1))
                else:
                    src = use
                if src not in view:
                    continue
                tgt = view.setdefault(cn, {})
                for a, ptr in list(view[src].items()):
                    tgt[a] = ptr
        amap = [
            (at.findtext("name").strip(), at.findtext("useatomname").strip())
            for at in sec.findall("atom")
        ]
        if amap:
            for rn in list(view):
                if rx.match(rn):
                    for new, old in amap:
                        if old in view[rn]:
                            view[rn][new] = view[rn][old]
    out = {}
    for rn, atoms in view.items():
        out[rn] = {a: (*dat[p[0]][p[1]], p[0], p[1]) for a, p in atoms.items()}
    return out


@lru_cache(maxsize=None)
def builtin(ff):
    d = topo.dat_dir()
    return resolve_text(
        (d / f"{ff}.DAT").read_text(encoding="utf-8"),
        (d / f"{ff}.names").read_text(encoding="utf-8"),
        tuple(universe()),
    )


def lookup(ff, resname, atom):
    """(charge, radius) or None."""
    e = builtin(ff).get(resname, {}).get(atom)
    return None if e is None else (e[0], e[1])


def supports(ff, state, atoms):
    """True iff the force field parameterises every atom of `atoms` in `state`."""
    tab = builtin(ff).get(state)
    return tab is not None and all(a in tab for a in atoms)


def selftest():
    dat = "# c\nALA N -0.4 1.5\nALA HN 0.3 1.0\nHSP ND1 -0.1 1.8 X\nTP3M OH2 -0.8 1.7\n\nCT OXT -0.5 1.4\n"
    names = """<ff>
    <residue><name>WAT</name><useresname>TP3M</useresname>
       <atom><name>O</name><useatomname>OH2</useatomname></atom></residue>
    <residue><name>HI([PDE])</name><useresname>HS$group</useresname></residue>
    <residue><name>CALA</name><useresname>ALA</useresname></residue>
    <residue><name>CALA</name><useresname>CT</useresname></residue>
    <residue><name>[NC]?...</name><atom><name>H</name><useatomname>HN</useatomname></atom></residue>
    </ff>"""
    m = resolve_text(dat, names, ["ALA", "CALA", "NALA", "HIP", "HID", "WAT"])
    assert m["WAT"]["O"][:2] == (-0.8, 1.7)
    assert m["HIP"]["ND1"][:2] == (-0.1, 1.8) and "HID" not in m
    assert m["CALA"]["OXT"][:2] == (-0.5, 1.4) and m["CALA"]["H"][:2] == (0.3, 1.0)
    assert m["ALA"]["H"][:2] == (0.3, 1.0) and "NALA" not in m
    assert lookup("AMBER", "WAT", "O") is not None


@lru_cache(maxsize=None)
def golden_support():
    """Pinned (force field -> state -> parameterised atom names) of the repaired tree: which states
    every built-in force field is known to cover.  Used where a property speaks about force fields
    that "define" a residue class - support that silently disappears is a regression."""
    import json
    from pathlib import Path

    return json.loads((Path(__file__).resolve().parent / "data" / "golden_support.json").read_text())


@lru_cache(maxsize=None)
def golden_native():
    """Pinned naming map of the repaired tree: force field -> state -> canonical atom -> [native
    residue, native atom].  The documented residue/atom naming map is part of what C01 quantifies
    over; an entry that silently points somewhere else is a regression (new entries are allowed)."""
    import json
    from pathlib import Path

    return json.loads((Path(__file__).resolve().parent / "data" / "golden_native.json").read_text())
