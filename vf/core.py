"""Runner core: parts, sharded Hypothesis campaigns, collect-then-shrink,
known findings, replay files and evidence.

A *part* is one campaign of a property: a Hypothesis strategy (or a finite list
of cases) producing JSON-serialisable case descriptors, and a pure
``check(case) -> Result``.  The runner never lets Hypothesis stop at the first
failure: violations are collected with their signature, and each distinct
unknown signature is shrunk afterwards by re-running the same seeded campaign
with a test that fails on that signature only.
"""

from __future__ import annotations

import hashlib
import json
import multiprocessing as mp
import os
import shutil
import sys
import tempfile
import time
import traceback
from collections import Counter
from dataclasses import dataclass, field
from pathlib import Path
from typing import Any, Callable

VERIF = Path(__file__).resolve().parent.parent
NCPU = min(16, os.cpu_count() or 1)


# --------------------------------------------------------------------------
# results
# --------------------------------------------------------------------------
@dataclass
class Result:
    """Outcome of one evaluated case."""

    violations: list = field(default_factory=list)  # [(signature, message)]
    nontrivial: bool = False
    labels: list = field(default_factory=list)
    sample: Any = None  # optional rendered form of the case (for evidence)

    def bad(self, signature: str, message: str):
        self.violations.append((signature, message))

    def label(self, *names: str):
        self.labels.extend(names)


@dataclass
class Part:
    """One campaign of a property."""

    name: str
    check: Callable[[dict], Result]
    strategy: Any = None  # hypothesis strategy -> case dict
    cases: Callable[[], list] | None = None  # finite enumeration instead
    budget: dict = field(default_factory=lambda: {"quick": 200, "thorough": 2000})
    exhaustive: bool = False  # the enumeration covers a finite space completely
    machine: Any = None  # factory(tier) -> RuleBasedStateMachine class (histories)
    machine_steps: dict = field(default_factory=lambda: {"quick": 30, "thorough": 50})
    shards: int | None = None
    shrink_key: str | None = None  # list-valued case key that may be reduced by ddmin


class HarnessError(Exception):
    """Problem of the machinery itself (exit status 2, never a violation)."""


# --------------------------------------------------------------------------
# helpers
# --------------------------------------------------------------------------
def case_hash(case) -> int:
    blob = json.dumps(case, sort_keys=True, default=str).encode()
    return int.from_bytes(hashlib.sha1(blob).digest()[:8], "big")


def shard_seed(seed: int, prop: str, part: str, shard: int) -> int:
    blob = f"{seed}:{prop}:{part}:{shard}".encode()
    return int.from_bytes(hashlib.sha256(blob).digest()[:4], "big")


def scratch_dir(prefix="vf_") -> str:
    return tempfile.mkdtemp(prefix=prefix, dir=os.environ.get("VF_TMP", None))


def load_known(prop_id: str):
    path = VERIF / "known_findings.json"
    if not path.exists():
        return {}, []
    data = json.loads(path.read_text())
    known = {}
    fixed = []
    for entry in data.get("findings", []):
        if entry.get("property") != prop_id:
            continue
        if entry.get("status") == "known":
            known[entry["signature"]] = entry
        else:
            fixed.append(entry)
    return known, fixed


def _settings(n, shrink=False):
    from hypothesis import HealthCheck, Phase, settings

    phases = [Phase.generate] + ([Phase.shrink] if shrink else [])
    return settings(
        max_examples=max(1, n),
        database=None,
        deadline=None,
        derandomize=False,
        report_multiple_bugs=False,
        phases=phases,
        suppress_health_check=list(HealthCheck),
        print_blob=False,
    )


# --------------------------------------------------------------------------
# one shard
# --------------------------------------------------------------------------
class _Acc:
    def __init__(self):
        self.n = 0
        self.nontrivial = set()
        self.labels = Counter()
        self.viol = {}  # signature -> [count, message, case]
        self.samples = []
        self.errors = []

    def add(self, case, res: Result):
        self.n += 1
        for lab in res.labels:
            self.labels[lab] += 1
        if res.nontrivial:
            h = case_hash(case)
            if h not in self.nontrivial and len(self.samples) < 2:
                self.samples.append(res.sample if res.sample is not None else case)
            self.nontrivial.add(h)
        for sig, msg in res.violations:
            ent = self.viol.get(sig)
            if ent is None:
                self.viol[sig] = [1, msg, case]
            else:
                ent[0] += 1
                if len(json.dumps(case, default=str)) < len(
                    json.dumps(ent[2], default=str)
                ):
                    ent[1], ent[2] = msg, case

    def pack(self):
        return dict(
            n=self.n,
            nontrivial=self.nontrivial,
            labels=self.labels,
            viol=self.viol,
            samples=self.samples,
            errors=self.errors,
        )


def _safe_check(part: Part, case) -> Result:
    """Run a check.  An exception raised INSIDE the package under test by a direct API call (innermost
    traceback frame in pdb2pqr/) and not handled by the check is a violation of the property the call
    was made for (bucketed by exception type and raising function); an exception raised by harness
    code is a harness error (exit 2)."""
    try:
        return part.check(case)
    except Exception as e:  # noqa: BLE001
        import sys
        import traceback

        frames = traceback.extract_tb(e.__traceback__)
        inner = frames[-1] if frames else None
        fn = (inner.filename if inner else "").replace("\\", "/")
        if inner is not None and "/pdb2pqr/" in fn and "/vf/" not in fn:
            prop = getattr(sys.modules.get(part.check.__module__), "ID", "C??")
            res = Result()
            res.bad(f"{prop}:{part.name}:exception:{type(e).__name__}:{inner.name}",
                    f"{type(e).__name__}: {e} raised in {fn.rsplit('/pdb2pqr/', 1)[-1]}:{inner.name} (line {inner.lineno})")
            res.nontrivial = True
            return res
        raise


def _run_shard(args):
    mod_name, part_name, tier, seed, shard, nshards, n_cases = args
    import importlib

    if "HYPOTHESIS_STORAGE_DIRECTORY" not in os.environ:
        os.environ["HYPOTHESIS_STORAGE_DIRECTORY"] = scratch_dir("vf_hyp_")
    mod = importlib.import_module(mod_name)
    part = {p.name: p for p in mod.parts(tier)}[part_name]
    acc = _Acc()
    try:
        if part.cases is not None:
            allcases = part.cases()
            for case in allcases[shard::nshards]:
                acc.add(case, _safe_check(part, case))
        elif part.machine is not None:
            _run_machine_shard(part, tier, seed, n_cases, acc)
        else:
            import hypothesis

            @hypothesis.seed(seed)
            @_settings(n_cases)
            @hypothesis.given(part.strategy)
            def campaign(case):
                acc.add(case, _safe_check(part, case))

            campaign()
    except BaseException:  # noqa: BLE001 - reported as harness error
        acc.errors.append(traceback.format_exc())
    finally:
        d = os.environ.get("HYPOTHESIS_STORAGE_DIRECTORY", "")
        if "vf_hyp_" in d:
            shutil.rmtree(d, ignore_errors=True)
            os.environ.pop("HYPOTHESIS_STORAGE_DIRECTORY", None)
        # the per-process run directory of vf.pipeline (re-created by the next run in this worker)
        import tempfile

        shutil.rmtree(os.path.join(tempfile.gettempdir(), f"vf_run_{os.getpid()}"), ignore_errors=True)
    return acc.pack()


def _run_machine_shard(part: Part, tier, seed, n_cases, acc: _Acc):
    """Histories through a Hypothesis rule-based machine.

    The machine class records its operations in ``self.ops`` (JSON) and calls
    ``self.sink(case, result)`` from ``teardown``; violations are collected
    rather than raised so that the campaign continues.
    """
    import hypothesis
    from hypothesis.stateful import run_state_machine_as_test

    cls = part.machine(tier)
    cls.sink = staticmethod(acc.add)
    st = _settings(n_cases)
    st = hypothesis.settings(st, stateful_step_count=part.machine_steps[tier])
    run_state_machine_as_test(hypothesis.seed(seed)(cls), settings=st)


# --------------------------------------------------------------------------
# shrinking
# --------------------------------------------------------------------------
class _StopShrink(KeyboardInterrupt):
    pass


def shrink_case(part: Part, tier, seed, n_cases, signature, first_case, budget_s):
    """Re-run the seeded shard with a test failing only on `signature`."""
    if part.strategy is None:
        if part.shrink_key:
            return ddmin_case(part, signature, first_case, budget_s)
        return first_case
    import hypothesis

    best = {"case": first_case, "size": len(json.dumps(first_case, default=str))}
    t0 = time.time()

    @hypothesis.seed(seed)
    @_settings(n_cases, shrink=True)
    @hypothesis.given(part.strategy)
    def campaign(case):
        if time.time() - t0 > budget_s:
            raise _StopShrink()
        res = _safe_check(part, case)
        if any(sig == signature for sig, _ in res.violations):
            size = len(json.dumps(case, default=str))
            if size <= best["size"]:
                best["case"], best["size"] = case, size
            raise AssertionError(signature)

    try:
        campaign()
    except (_StopShrink, AssertionError):
        pass
    except BaseException:  # noqa: BLE001
        pass
    return best["case"]


def ddmin_case(part: Part, signature, case, budget_s):
    """Delta-debugging over a list-valued key (operation histories)."""
    key = part.shrink_key
    t0 = time.time()

    def fails(items):
        c = dict(case)
        c[key] = items
        try:
            return any(s == signature for s, _ in _safe_check(part, c).violations)
        except Exception:  # noqa: BLE001
            return False

    items = list(case[key])
    n = 2
    while len(items) >= 2 and time.time() - t0 < budget_s:
        chunk = max(1, len(items) // n)
        reduced = False
        for i in range(0, len(items), chunk):
            cand = items[:i] + items[i + chunk :]
            if cand and fails(cand):
                items = cand
                n = max(n - 1, 2)
                reduced = True
                break
        if not reduced:
            if chunk == 1:
                break
            n = min(len(items), n * 2)
    out = dict(case)
    out[key] = items
    return out


# --------------------------------------------------------------------------
# property run
# --------------------------------------------------------------------------
def replay_file(mod, path: Path):
    data = json.loads(Path(path).read_text())
    case = data["case"]
    tier = data.get("tier", "quick")
    parts = {p.name: p for p in mod.parts(tier)}
    part = parts.get(data.get("part")) or next(iter(parts.values()))
    return part, case, _safe_check(part, case)


def run_property(mod, tier: str, seed: int, replay: str | None = None) -> int:
    prop_id = mod.ID
    t0 = time.time()
    known, fixed = load_known(prop_id)
    out = sys.stdout

    if hasattr(mod, "selftest"):
        try:
            mod.selftest()
        except Exception:
            traceback.print_exc()
            print(f"HARNESS-ERROR property={prop_id} oracle self-test failed")
            return 2

    if hasattr(mod, "prepare"):
        try:
            mod.prepare(tier, seed)
        except Exception:
            traceback.print_exc()
            print(f"HARNESS-ERROR property={prop_id} prepare() failed")
            return 2
    if replay:
        part, case, res = replay_file(mod, Path(replay))
        bad = [(s, m) for s, m in res.violations if s not in known]
        for s, m in res.violations:
            print(f"  {'known ' if s in known else ''}violation {s}: {m}")
        if bad:
            print(f"VIOLATION property={prop_id} replay={replay}")
            return 1
        print(f"replay {replay}: property held")
        return 0

    parts = mod.parts(tier)
    if os.environ.get("VF_PARTS"):  # debugging aid: run selected parts only (never used by registered commands)
        parts = [p for p in parts if p.name in os.environ["VF_PARTS"].split(",")]
    total = _Acc()
    per_part = {}
    unknown = {}  # signature -> (part, shard seed, n, msg, case)
    stored_replays = 0

    # 1. regression tier: stored replay files first
    rdir = VERIF / "replays" / prop_id
    if rdir.is_dir():
        for f in sorted(rdir.glob("*.json")):
            try:
                part, case, res = replay_file(mod, f)
            except Exception:
                traceback.print_exc()
                print(f"HARNESS-ERROR property={prop_id} replay file {f} unusable")
                return 2
            stored_replays += 1
            total.add(case, res)
            for sig, msg in res.violations:
                if sig not in known:
                    unknown.setdefault(sig, (part, None, 0, msg, case, str(f)))

    # 2. generated campaigns
    ctx = mp.get_context("fork")
    for part in parts:
        n_total = part.budget[tier]
        if part.cases is not None:
            nshards = part.shards or NCPU
            jobs = [
                (mod.__name__, part.name, tier, 0, s, nshards, 0) for s in range(nshards)
            ]
        else:
            nshards = part.shards or min(NCPU, max(1, n_total // 8))
            per = -(-n_total // nshards)
            jobs = [
                (
                    mod.__name__,
                    part.name,
                    tier,
                    shard_seed(seed, prop_id, part.name, s),
                    s,
                    nshards,
                    per,
                )
                for s in range(nshards)
            ]
        with ctx.Pool(min(NCPU, len(jobs))) as pool:
            results = pool.map(_run_shard, jobs, chunksize=1)
        pacc = _Acc()
        for job, r in zip(jobs, results):
            if r["errors"]:
                print(r["errors"][0])
                print(
                    f"HARNESS-ERROR property={prop_id} part={part.name} "
                    f"shard={job[4]} seed={job[3]}"
                )
                return 2
            for acc in (pacc, total):
                acc.n += r["n"]
                acc.nontrivial |= r["nontrivial"]
                acc.labels.update(r["labels"])
                if len(acc.samples) < 4:
                    acc.samples.extend(r["samples"][:1])
                for sig, (cnt, msg, case) in r["viol"].items():
                    ent = acc.viol.get(sig)
                    if ent is None:
                        acc.viol[sig] = [cnt, msg, case]
                    else:
                        ent[0] += cnt
            for sig, (cnt, msg, case) in r["viol"].items():
                if sig not in known and sig not in unknown:
                    unknown[sig] = (part, job[3], job[6], msg, case, None)
        per_part[part.name] = dict(
            evaluations=pacc.n,
            distinct_nontrivial=len(pacc.nontrivial),
            exhaustive=bool(part.exhaustive),
            labels=dict(pacc.labels.most_common(40)),
        )

    # 3. known findings (listed ones are always printed; counts are measured)
    for sig, entry in known.items():
        cnt = total.viol.get(sig, [0])[0]
        print(
            f"KNOWN-FINDING: property={prop_id} {sig} - {entry['what']} "
            f"(observed {cnt} times in this run)"
        )

    # 4. unknown signatures -> shrink -> replay file -> VIOLATION
    status = 0
    if unknown:
        odir = Path(os.environ["VF_REPLAY_OUT"]) / prop_id if os.environ.get("VF_REPLAY_OUT") else rdir
        odir.mkdir(parents=True, exist_ok=True)
        shrink_budget = 45 if tier == "quick" else 240
        for i, (sig, (part, sseed, n, msg, case, existing)) in enumerate(
            sorted(unknown.items())
        ):
            if existing is not None:
                path = Path(existing)
            else:
                if i < 3 and sseed is not None and os.environ.get("VF_NOSHRINK") != "1":
                    case = shrink_case(part, tier, sseed, n, sig, case, shrink_budget)
                    res = _safe_check(part, case)
                    msgs = [m for s, m in res.violations if s == sig]
                    msg = msgs[0] if msgs else msg
                safe = "".join(ch if ch.isalnum() or ch in "-_." else "_" for ch in sig)
                path = odir / f"new_{safe[:80]}.json"
                path.write_text(
                    json.dumps(
                        dict(
                            property=prop_id,
                            part=part.name,
                            tier=tier,
                            signature=sig,
                            message=msg,
                            seed=seed,
                            case=case,
                        ),
                        indent=1,
                        default=str,
                    )
                )
            print(f"  violation {sig}: {msg}")
            print(f"VIOLATION property={prop_id} replay={path}")
        status = 1

    # 5. evidence
    wall = time.time() - t0
    rule = getattr(mod, "RULE", "")
    ev = dict(
        property_id=prop_id,
        tier=tier,
        seed=seed,
        level="exploration",
        coverage=dict(
            evaluations=total.n,
            distinct_nontrivial=len(total.nontrivial),
            rule=rule,
            samples=total.samples[:6],
            exhaustive=all(p["exhaustive"] for p in per_part.values()) if per_part else False,
            parts=per_part,
            class_histogram=dict(total.labels.most_common(60)),
            stored_replays_run=stored_replays,
            known_finding_counts={s: total.viol.get(s, [0])[0] for s in known},
            fixed_findings=[f"{e.get('commit', '')} {e['what']}" for e in fixed],
        ),
        assumptions=list(getattr(mod, "ASSUMPTIONS", [])),
        wall_s=round(wall, 2),
        violations=len(unknown),
    )
    # (tools/seeded.py runs the checks against PATCHED copies of the repository: those runs must not
    # overwrite the evidence of the real tree and redirect it; registered commands never set this)
    edir = Path(os.environ["VF_EVIDENCE_OUT"]) if os.environ.get("VF_EVIDENCE_OUT") else VERIF / "evidence"
    edir.mkdir(exist_ok=True, parents=True)
    (edir / f"{prop_id}.json").write_text(json.dumps(ev, indent=1, default=str) + "\n")
    print(
        f"{prop_id} tier={tier} seed={seed}: {total.n} cases, "
        f"{len(total.nontrivial)} distinct non-trivial, "
        f"{len(unknown)} unknown violation signatures, {wall:.1f}s"
    )
    for name, pp in per_part.items():
        print(
            f"  part {name}: {pp['evaluations']} cases, "
            f"{pp['distinct_nontrivial']} non-trivial; labels {pp['labels']}"
        )
    if hasattr(mod, "cleanup"):
        try:
            mod.cleanup()
        except Exception:  # noqa: BLE001
            pass
    if total.n and len(total.nontrivial) < 2:
        print(f"HARNESS-ERROR property={prop_id} generator produced <2 non-trivial cases")
        return 2
    return status
