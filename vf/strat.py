"""Shared Hypothesis strategies (everything yields JSON-serialisable values)."""

from hypothesis import strategies as st

from . import topo


def fl(lo, hi):
    return st.floats(min_value=lo, max_value=hi, allow_nan=False, allow_infinity=False, width=64)


def vec(scale):
    return st.lists(fl(-scale, scale), min_size=3, max_size=3)


def quat():
    """Quaternion components; geom.quat_to_rot normalises (identity if tiny)."""
    return st.lists(fl(-1.0, 1.0), min_size=4, max_size=4)


def unit_dir():
    return st.lists(fl(-1.0, 1.0), min_size=3, max_size=3)


def torsion(wild=False):
    wells = st.builds(
        lambda w, j: float(w + j), st.sampled_from([-60.0, 180.0, 60.0]), fl(-15.0, 15.0)
    )
    if wild:
        return st.one_of(wells, fl(-180.0, 180.0))
    return wells


def phi():
    return fl(-150.0, -55.0)


def psi():
    return st.one_of(fl(120.0, 160.0), fl(-55.0, -35.0))


FFS = ["AMBER", "CHARMM", "PARSE", "TYL06", "PEOEPB", "SWANSON"]


def resname(variants=0.2, pool=None):
    pool = pool or topo.AA20
    if variants <= 0:
        return st.sampled_from(pool)
    return st.one_of(
        st.sampled_from(pool), st.sampled_from(pool), st.sampled_from(pool),
        st.sampled_from(pool), st.sampled_from(topo.VARIANTS),
    )  # fmt: skip


@st.composite
def chain(draw, cid="A", nmin=1, nmax=6, wild=False, hyd=None, variants=0.2, start=None,
          oxt=None, names=None):  # fmt: skip
    n = draw(st.integers(nmin, nmax))
    seq = draw(st.lists(names or resname(variants), min_size=n, max_size=n))
    d = dict(
        id=cid,
        start=draw(st.sampled_from([1, 1, 1, -3, 0, -1, 27, 998, 9995])) if start is None else start,
        seq=seq,
        phi=draw(st.lists(phi(), min_size=n, max_size=n)),
        psi=draw(st.lists(psi(), min_size=n, max_size=n)),
        chi=draw(
            st.lists(st.lists(torsion(wild), min_size=5, max_size=5), min_size=n, max_size=n)
        ),
        hyd=draw(st.sampled_from(["none", "none", "none", "all"])) if hyd is None else hyd,
        oxt=draw(st.sampled_from([True] * 6 + [False])) if oxt is None else oxt,
        q=draw(quat()),
        ter=draw(st.sampled_from([True] * 5 + [False])),
    )
    if any(topo.BASE.get(r, r) in ("ASP", "GLU") for r in seq) and draw(st.integers(0, 1)) == 0:
        d["acid"] = [draw(st.sampled_from([None, [1.35, 1.20], [1.20, 1.35], [1.26, 1.25], [1.31, 1.21]])) for _ in range(n)]
    if draw(st.integers(0, 2 if d["hyd"] == "all" else 4)) == 0:
        # old / alternative atom names in the input (heavy-only inputs: ILE CD, OT1/OT2, O'/O'')
        d["altmod"] = draw(st.sampled_from([1, 2, 3]))
    if d["hyd"] == "all" and draw(st.integers(0, 1)) == 0:
        d["hdrop"] = [[draw(st.integers(0, n - 1)), draw(st.integers(0, 40))] for _ in range(draw(st.integers(1, 3)))]
    if draw(st.integers(0, 3)) == 0:
        d["shuffle"] = draw(st.integers(1, 1000))  # atoms of a residue listed in an unusual order
    if draw(st.integers(0, 5)) == 0:
        d["hetres"] = draw(st.integers(0, 15))  # one standard residue written with HETATM records
    if oxt is None and draw(st.integers(0, 5)) == 0:
        # heavy atoms that the residue's topology does not define (must be reported when deleted)
        d["extra"] = [[draw(st.integers(0, 15)), draw(st.sampled_from(["P", "O1P", "XE1", "OX9", "CM"]))]
                      for _ in range(draw(st.integers(1, 3)))]
        if draw(st.integers(0, 3)) > 0:
            d["oxt"] = False  # pdb2pqr deletes undefined atoms only while repairing: something must be missing
    if d["start"] + n > 9999:  # the PDB residue-number column has 4 characters
        d["start"] = 9999 - n
    return d


def contact(wild=False, tip=False):
    gap = fl(2.2, 3.0) if wild else fl(2.9, 3.6)
    if tip:
        return st.fixed_dictionaries(dict(target=st.integers(0, 10_000), dir=unit_dir(), gap=fl(1.2, 2.4),
                                          tip=st.sampled_from([True, True, "dropped"])))
    return st.fixed_dictionaries(
        dict(target=st.integers(0, 10_000), dir=unit_dir(), gap=gap)
    )


def water():
    return st.fixed_dictionaries(
        dict(anchor=st.integers(0, 10_000), dir=unit_dir(), d=fl(2.7, 3.3),
             # hydrogens already present (both), or an incomplete water with only H2 (rare)
             h=st.sampled_from(["none"] * 8 + ["both"] * 3 + ["H2"]))
    )


def add_insertion_codes(draw, ch):
    """Give a chain runs of equal residue numbers distinguished by insertion codes ('', A, B ...).
    Half of the inserted residues repeat the NAME of their predecessor (SER 20, SER 20A): number
    and name equal, only the code differs."""
    n = len(ch["seq"])
    style = draw(st.sampled_from(["codes", "codes", "inserted-domain", "descending-codes"])) if n >= 3 else "codes"
    if style == "inserted-domain":
        # residue numbers that do not ascend along the chain: an inserted domain keeps its own numbering
        a = draw(st.integers(1, n - 2))
        b = draw(st.integers(a + 1, n - 1))
        base = ch["start"] if ch["start"] + n + 1000 <= 9999 else 1
        nums, j = [], 0
        for i in range(n):
            if a <= i < b:
                nums.append(base + 1000 + (i - a))
            else:
                nums.append(base + j)
                j += 1
        ch["nums"], ch["icodes"] = nums, [" "] * n
        return ch
    if style == "descending-codes":
        # insertion codes written in descending order before the plain number (1C 1B 1A 1 2 ...)
        k = draw(st.integers(1, min(3, n - 1)))
        nums = [ch["start"]] * (k + 1) + [ch["start"] + 1 + i for i in range(n - k - 1)]
        ch["nums"], ch["icodes"] = nums, ["CBA"[3 - k + i] for i in range(k)] + [" "] * (n - k)
        return ch
    nums, codes, k = [], [], 0
    for i in range(n):
        if i > 0 and draw(st.booleans()) and k < 5:  # (codes A-E: a sixth insertion would repeat 'E')
            k += 1
            nums.append(nums[-1])
            codes.append("ABCDE"[min(k - 1, 4)])
            if draw(st.booleans()) and ch["seq"][i - 1] != "PRO":
                ch["seq"][i] = ch["seq"][i - 1]
        else:
            k = 0
            nums.append((nums[-1] + 1) if nums else ch["start"])
            codes.append(" ")
    ch["nums"], ch["icodes"] = nums, codes
    return ch
