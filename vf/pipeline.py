"""Drive pdb2pqr's programmatic entry point on generated files."""

from __future__ import annotations

import logging
import os
import shutil
from dataclasses import dataclass, field

from .core import scratch_dir


class _Collector(logging.Handler):
    def __init__(self):
        super().__init__(level=logging.WARNING)
        self.records = []

    def emit(self, record):
        try:
            self.records.append((record.levelname, record.name, record.getMessage()))
        except Exception:  # noqa: BLE001
            self.records.append((record.levelname, record.name, str(record.msg)))


def quiet_logging():
    root = logging.getLogger()
    if not any(isinstance(h, logging.NullHandler) for h in root.handlers):
        root.addHandler(logging.NullHandler())
    logging.getLogger("pdb2pqr").setLevel(logging.WARNING)
    logging.getLogger("propka").setLevel(logging.ERROR)
    logging.captureWarnings(True)


@dataclass
class Run:
    ok: bool
    exc: BaseException | None = None
    pqr_text: str | None = None
    missing: list | None = None
    pka: object = None
    bio: object = None
    warnings: list = field(default_factory=list)
    files: dict = field(default_factory=dict)
    out_exists: bool = False
    workdir: str | None = None

    @property
    def exc_text(self):
        if self.exc is None:
            return ""
        e = self.exc
        cause = e.__cause__ or e
        return f"{type(e).__name__}: {cause}"

    def atom_lines(self):
        return [
            ln for ln in (self.pqr_text or "").splitlines() if ln.startswith(("ATOM", "HETATM"))
        ]


def run(input_text, opts, ext="pdb", extra_files=None, keep=False, read=(), out_name="out.pqr",
        prefill=None, in_name=None):  # fmt: skip
    """Run pdb2pqr on `input_text`; returns a Run.  Never raises for errors of
    the code under test (they are returned in Run.exc)."""
    from pdb2pqr.main import run_pdb2pqr

    quiet_logging()
    # One directory per worker process, emptied before every run: the same path strings carry new
    # content from case to case, so anything keyed by path (instead of content) turns up as a stale
    # result in whatever property it affects.
    import tempfile

    d = os.path.join(tempfile.gettempdir(), f"vf_run_{os.getpid()}")
    shutil.rmtree(d, ignore_errors=True)
    os.makedirs(d)
    # how the files are named and addressed is part of the input: a quarter of the runs (chosen by a
    # hash of the content, so a case always gets the same style) use relative paths, a dotted name in a
    # sub-directory with a blank, or an upper-case extension
    import hashlib

    blob = input_text if isinstance(input_text, bytes) else input_text.encode("utf-8", "replace")
    style = hashlib.sha1(blob).digest()[0] % 12 if (in_name is None and out_name == "out.pqr") else 0
    rel_in = rel_out = None
    if style == 8:
        rel_in, rel_out = f"in.{ext}", "out.pqr"
    elif style == 9:
        os.makedirs(os.path.join(d, "sub dir"))
        rel_in = os.path.join("sub dir", f"my.model.v2.{ext}")
    elif style == 10:
        rel_in = f"IN.{ext.upper()}"
    elif style == 11:
        rel_in, rel_out = os.path.join(".", f"in.{ext}"), os.path.join(".", "out.pqr")
    inp = os.path.join(d, rel_in or in_name or f"in.{ext}")
    outp = os.path.join(d, out_name)
    mode = "wb" if isinstance(input_text, bytes) else "w"
    kw = {} if mode == "wb" else {"newline": ""}
    with open(inp, mode, **kw) as fh:
        fh.write(input_text)
    for name, text in (extra_files or {}).items():
        with open(os.path.join(d, name), "w") as fh:
            fh.write(text)
    if prefill is not None:
        with open(outp, "w") as fh:
            fh.write(prefill)
    args = [o.replace("@DIR@", d) for o in opts] + [rel_in if style in (8, 11) else inp, rel_out or outp]
    col = _Collector()
    lg = logging.getLogger("pdb2pqr")
    lg.addHandler(col)
    cwd = os.getcwd()
    r = Run(ok=False)
    try:
        os.chdir(d)
        try:
            missing, pka, bio = run_pdb2pqr(args)
            r.ok = True
            r.missing, r.pka, r.bio = missing, pka, bio
        except KeyboardInterrupt:
            raise
        except BaseException as e:  # noqa: BLE001 - SystemExit from argparse too
            r.exc = e
        r.out_exists = os.path.exists(outp)
        if r.out_exists:
            with open(outp, newline="") as fh:
                r.pqr_text = fh.read()
        for name in read:
            p = os.path.join(d, name)
            if os.path.exists(p):
                with open(p, newline="") as fh:
                    r.files[name] = fh.read()
    finally:
        os.chdir(cwd)
        lg.removeHandler(col)
        r.warnings = col.records
        if keep:
            r.workdir = d
        else:
            shutil.rmtree(d, ignore_errors=True)
    return r


_DEFINITION = None


def definition():
    """pdb2pqr's topology definition (parsed once per process)."""
    global _DEFINITION
    if _DEFINITION is None:
        from pdb2pqr import io as pio

        _DEFINITION = pio.get_definitions()
    return _DEFINITION


def make_biomolecule(pdb_text, neutraln=False, neutralc=False):
    """Parse PDB text and set up a Biomolecule the way main_driver does, without
    any repair/hydrogen/optimisation stage (for unit-level checks)."""
    import copy
    import io as _io

    from pdb2pqr import pdb as ppdb
    from pdb2pqr.main import setup_molecule

    quiet_logging()
    pdblist, _errs = ppdb.read_pdb(_io.StringIO(pdb_text))
    bio, _defn, _lig = setup_molecule(pdblist, copy.deepcopy(definition()), None)
    bio.set_termini(neutraln=neutraln, neutralc=neutralc)
    bio.update_bonds()
    return bio
