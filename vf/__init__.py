"""Property-based verification framework for pdb2pqr (see /verif/DESIGN.md)."""
