"""C03 - no atom is silently lost, duplicated or invented."""

import re

import numpy as np
from hypothesis import strategies as st

from .. import colfmt, e2e, ffmodel, strat, topo
from ..core import Part, Result

ID = "C03"
RULE = (
    "Generated structures (G1: 1-3 chains, every residue type and named variant, heavy-only / "
    "all-hydrogen inputs, missing OXT, missing side-chain atoms, contact placement, waters, odd "
    "numbering) x force field x option combination (debump/opt on/off, --assign-only, --clean, "
    "--drop-water, --keep-chain, --whitespace).  Oracle: every input heavy atom tracked by key into "
    "the returned model exactly once (unless named in a captured 'Extra atom' deletion warning); "
    "model atoms == written lines + reported unassigned atoms, in order; for every fully "
    "parameterised residue the written name set == independently composed topology of its final "
    "state (no LP*/..FLIP placeholders, no duplicates, no hydrogen missing).  Non-trivial = a run "
    "in which optimisation bookkeeping ran on >= 1 optimisable group (HIS/ASN/GLN/SER/THR/TYR/"
    "CYS/LYS/ASH/GLH/water present and --noopt/--assign-only/--clean absent) or a repair happened."
    ' ffout: EXHAUSTIVE naming scheme x input name x chain position (x force field at the thorough '
    'tier): same atom count, no duplicate names.  altnames: EXHAUSTIVE residue type x position x '
    'heavy-only/all-hydrogen input written with the alternative atom names, in frozen modes the '
    "atom of each canonical name must sit at the input atom's coordinates.  nettable: directed "
    'hydrogen-bond networks (e2e.network_table).  Generated chains also carry undefined extra atoms '
    '(deletion must be reported), hidden chain ends in every mode, waters with hydrogens present or '
    'only H2, HETATM-recorded standard residues, PDB column and record-order variants.'
    ' big: the protein rules and the strand rules on `big` structures (see C02), with missing atoms and insertion codes.'
)
ASSUMPTIONS = [
    "XML templates define atom sets (read independently); chemistry rules in vf/topo.py",
    "single-residue chains carry both caps but only the N-terminal state name (not fully parameterised)",
]

OPTIMISABLE = {"HIS", "ASN", "GLN", "SER", "THR", "TYR", "CYS", "LYS", "ASH", "GLH", "ARG",
               "HID", "HIE", "HIP", "HSD", "HSE", "HSP", "LYN", "TYM", "CYM", "AR0", "ASP", "GLU"}  # fmt: skip
MODES = [[], [], [], ["--noopt"], ["--nodebump"], ["--nodebump", "--noopt"], ["--assign-only"], ["--clean"]]


@st.composite
def case(draw):
    mode = draw(st.sampled_from(MODES))
    hyd = "all" if mode == ["--assign-only"] else None
    desc = draw(e2e.structure(missing=(mode not in (["--assign-only"], ["--clean"])), hyd=hyd,
                              wild=draw(st.booleans()), icodes=True))  # fmt: skip
    if draw(st.integers(0, 4)) == 0:
        e2e.add_hidden_ends(draw, desc)  # chain end recognisable only by an OXT (every mode, --clean too)
    opts = list(mode)
    for o in ("--keep-chain", "--whitespace", "--drop-water"):
        if draw(st.integers(0, 3)) == 0:
            opts.append(o)
    ff = draw(st.sampled_from(strat.FFS))
    return dict(part="e2e", desc=desc, ff=ff, opts=opts + e2e.neutral_opts(draw, ff, opts))


def check(case):
    res = Result()
    desc, ff, opts = case["desc"], case["ff"], case["opts"]
    s, r = e2e.run_case(desc, ff, opts)
    heavy, missing = e2e.counts(desc, s)
    clean = "--clean" in opts
    assign_only = "--assign-only" in opts
    res.label(f"mode={' '.join(o for o in opts if o in ('--noopt', '--nodebump', '--assign-only', '--clean')) or 'default'}")
    if not r.ok:
        res.label("run-failed")  # C12 judges success/failure of runs
        return res
    A = e2e.analyse(desc, ff, opts, s, r)
    for sig, msg in A.problems:
        if sig.startswith("C03"):
            res.bad(sig, msg)
    deleted = set()
    for _lvl, _name, msg in r.warnings:
        m = re.search(r"Extra atom (\S+) in", msg) or re.search(r"Deleted this atom|Deleted atom (\S+)", msg)
        if m and m.groups() and m.group(1):
            deleted.add(m.group(1))
    repaired = missing > 0 and not clean and not assign_only and missing / max(heavy, 1) <= e2e.REPAIR_LIMIT
    frozen = clean or assign_only or ("--nodebump" in opts and "--noopt" in opts)
    opt_ran = False
    for g, names in A.inp.items():
        entry = A.by_group.get(g)
        if entry is None:
            continue
        out_names = entry["atoms"]
        if g[0] == "na":
            continue  # (strands of a mixed file: check_na on the same descriptor)
        if g[0] == "water":
            if "O" not in out_names:
                res.bad("C03:lost:water-O", f"water oxygen of {g} not in the model")
            if not clean and not assign_only:
                if set(out_names) != {"O", "H1", "H2"}:
                    res.bad("C03:atomset:water", f"water {g} written with atoms {sorted(out_names)}")
                opt_ran = True
            continue
        ci, i = g[1], g[2]
        rn = desc["chains"][ci]["seq"][i]
        alts = topo.alt_to_canonical(rn)
        for name in names:
            canon = alts.get(name, name)
            if not topo.heavy(name):
                continue
            if canon not in out_names and name not in out_names and name not in deleted:
                res.bad("C03:lost:heavy", f"input heavy atom {name} of {rn} ({g}) is not in the final model "
                        f"and no deletion was reported")  # fmt: skip
            elif frozen and name not in deleted and (canon in out_names or name in out_names) and \
                    not (topo.BASE.get(rn, rn) in ("ASP", "GLU") and canon in ("OD1", "OD2", "OE1", "OE2")):
                # nothing moves in these modes: the atom of that name must BE the input atom; a stand-in at
                # other coordinates means the input atom was dropped and a new one invented in its place
                a_ = out_names.get(canon) or out_names.get(name)
                dd = float(np.linalg.norm(np.array(a_.coords) - names[name]))
                if dd > 2e-3:
                    res.bad("C03:replaced-heavy", f"input heavy atom {name} of {rn} ({g}): the model's {canon} is {dd:.3f} A away "
                            f"(input atom lost, a rebuilt one stands in) in mode {' '.join(opts)}")  # fmt: skip
        if clean or assign_only:
            continue
        exp = A.expected[(ci, i)]
        full = not any(id(a) in A.missing_ids for a in out_names.values())
        n = len(desc["chains"][ci]["seq"])
        bad_placeholder = [x for x in out_names if x.startswith("LP") or x.endswith("FLIP")]
        if bad_placeholder:
            res.bad("C03:placeholder", f"{rn} {g}: internal placeholder atoms {bad_placeholder} in the final model")
        if not full and n > 1 and not exp["his_any"]:
            # the force field parameterises every atom of the expected state: an
            # unassigned atom in this residue is one the topology does not define
            state = exp["prefix"] + exp["core"]
            if ffmodel.supports(ff, state, exp["atoms"]):
                stray = sorted(k for k, a in out_names.items() if id(a) in A.missing_ids)
                if set(out_names) - set(stray) == set(exp["atoms"]) or set(stray) - set(exp["atoms"]):
                    res.bad("C03:atomset:invented-unassigned",
                            f"{rn} at {g} in {ff}: state {state} is fully supported but atoms {stray} "
                            f"exist in the model without parameters")  # fmt: skip
        if full and n > 1:
            have = set(out_names)
            want = set(exp["atoms"])
            if exp["his_any"]:
                taut = have & {"HD1", "HE2"}
                if not taut:
                    res.bad("C03:atomset:his-no-proton", f"HIS {g} has neither HD1 nor HE2")
                have -= {"HD1", "HE2"}
                want -= {"HD1", "HE2"}
            if have != want:
                lack, extra = sorted(want - have), sorted(have - want)
                kind = "missing-hydrogen" if lack and all(not topo.heavy(x) for x in lack) and not extra else \
                    ("extra" if extra and not lack else "differs")
                res.bad(f"C03:atomset:{kind}", f"{rn} at {g} in {ff}: lacks {lack}, extra {extra}")
        if topo.BASE.get(rn, rn) in OPTIMISABLE or rn in OPTIMISABLE:
            opt_ran = opt_ran or "--noopt" not in opts
    res.nontrivial = (opt_ran and not clean and not assign_only) or repaired
    res.label("repair" if repaired else "no-repair", "opt" if opt_ran else "no-opt",
              f"ff={ff}", f"chains={len(desc['chains'])}")  # fmt: skip
    return res


@st.composite
def big_case(draw):
    desc = draw(e2e.big_structure(missing=True, icodes=True))
    ff = e2e.big_ff(draw, desc)
    opts = list(draw(st.sampled_from(MODES[:6])))
    for o in ("--keep-chain", "--whitespace", "--drop-water"):
        if draw(st.integers(0, 3)) == 0:
            opts.append(o)
    return dict(part="big", desc=desc, ff=ff, opts=opts)


def check_big(case):
    """Protein chains and strands in one file, 4-30 chains, one long chain: the protein rules and the
    strand rules on the same descriptor."""
    res = check(case)
    res.label(f"big={case['desc'].get('big')}")
    if case["desc"].get("na"):
        res.violations += check_na(case).violations
    return res


@st.composite
def window_case(draw):
    mode = draw(st.sampled_from([[], [], [], ["--noopt"], ["--nodebump"], ["--nodebump", "--noopt"], ["--clean"]]))
    opts = list(mode)
    for o in ("--keep-chain", "--whitespace", "--drop-water"):
        if draw(st.integers(0, 3)) == 0:
            opts.append(o)
    return dict(part="windows", desc=draw(e2e.window_structure()), ff=draw(st.sampled_from(strat.FFS)), opts=opts)


def check_ligand(case):
    """Complexes with a MOL2 ligand, waters and a second hetero group: model atoms == written lines +
    reported unassigned atoms, every written atom exactly once."""
    from . import c16
    from .. import colfmt

    res = Result()
    inner = c16.check_complex(dict(case, part="complex"))
    for sig, msg in inner.violations:
        if "partition" in sig or "count" in sig or "duplicates" in sig or "water-lines" in sig:
            res.bad(sig.replace("C16:complex", "C03:ligand"), msg)
    res.nontrivial = inner.nontrivial
    res.labels = list(inner.labels)
    return res


def check_na(case):
    """Nucleic-acid strands: atom conservation (5' phosphate removed by design) and atom sets."""
    res = Result()
    desc, ff, opts = case["desc"], case["ff"], case["opts"]
    s, r = e2e.run_case(desc, ff, opts)
    res.label(f"ff={ff}", *("dna" if x["dna"] else "rna" for x in desc["na"]))
    if not r.ok:
        res.label("run-failed")
        return res
    A = e2e.analyse(desc, ff, opts, s, r)
    for sig, msg in A.problems:
        if sig.startswith("C03"):
            res.bad(sig, msg)
    norm = {"OP1": "O1P", "OP2": "O2P"}
    for meta in s.strands:
        for i, letter in enumerate(meta["seq"]):
            g = ("na", meta["index"], i)
            entry = A.by_group.get(g)
            if entry is None:
                continue
            exp = topo.expected_na(letter, meta["dna"], i == 0, i == meta["n"] - 1)
            have = {norm.get(k, k) for k in entry["atoms"]}
            for name in A.inp[g]:
                nn = norm.get(name, name)
                if nn not in have and not (i == 0 and nn in ("P", "O1P", "O2P")):
                    res.bad("C03:na:lost-heavy", f"{exp['name']} (nucleotide {i} of {''.join(meta['seq'])}): input atom {name} is "
                            f"not in the final model")  # fmt: skip
                elif nn in have:
                    # nucleotides are never moved: the atom of that name must BE the input atom (a rebuilt
                    # stand-in at template coordinates means the input atom was lost and one invented)
                    a = entry["atoms"].get(name) or entry["atoms"].get({"O1P": "OP1", "O2P": "OP2"}.get(name, name))
                    if a is not None and float(np.linalg.norm(np.array(a.coords) - A.inp[g][name])) > 2e-3:
                        res.bad("C03:na:replaced-heavy", f"{exp['name']} (nucleotide {i} of {''.join(meta['seq'])}): the model's {name} is "
                                f"{float(np.linalg.norm(np.array(a.coords) - A.inp[g][name])):.2f} A from the input atom (lost and re-invented)")  # fmt: skip
            full = not any(id(a) in A.missing_ids for a in entry["atoms"].values())
            if full and have != exp["atoms"]:
                res.bad("C03:na:atomset", f"{ff} {exp['name']}: lacks {sorted(exp['atoms'] - have)}, extra {sorted(have - exp['atoms'])} "
                        f"(5' phosphate in input: {meta['p5']})")  # fmt: skip
    res.nontrivial = True
    return res


# ------------------------------------------------------------------ output naming schemes (exhaustive table)
def ffout_cases(tier="quick"):
    """Every amino-acid input name x chain position x output naming scheme x force field (quick tier:
    one force field per (scheme, name, position) cell, rotating; thorough: all six)."""
    from . import c06

    out = []
    k = 0
    for scheme in strat.FFS:
        for name in topo.AA20 + topo.VARIANTS:
            for pos in "NMC":
                k += 1
                ffs = strat.FFS if tier != "quick" else [strat.FFS[k % len(strat.FFS)]]
                for ff in ffs:
                    out.append(dict(part="ffout", chain=c06._context(k % 3, name, pos), ff=ff, scheme=scheme, name=name, pos=pos))
    return out


def check_ffout(case):
    """--ffout only renames: the same atoms are written, and no residue is written with two atoms of
    the same name (a naming rule that maps two atoms onto one native name loses one of them for
    every reader of the file)."""
    res = Result()
    desc = dict(chains=[case["chain"]], waters=[])
    ff, scheme = case["ff"], case["scheme"]
    s0, r0 = e2e.run_case(desc, ff, ["--keep-chain"])
    s1, r1 = e2e.run_case(desc, ff, ["--keep-chain", f"--ffout={scheme}"])
    res.label(f"ff={ff}", f"scheme={scheme}", f"pos={case['pos']}")
    if not r0.ok or not r1.ok:
        res.label("run-failed")
        if r0.ok and not r1.ok:
            res.bad("C03:ffout:run-fails", f"{ff} --ffout={scheme} {case['name']}: {r1.exc_text[:100]}")
        return res
    l0 = colfmt.read_pqr_text(r0.pqr_text, False)
    l1 = colfmt.read_pqr_text(r1.pqr_text, False)
    if len(l0) != len(l1):
        res.bad("C03:ffout:atom-count", f"{ff} --ffout={scheme} {case['name']} at {case['pos']}: {len(l0)} atoms without, {len(l1)} with the naming scheme")
        return res
    seen = {}
    renamed = False
    for a, b in zip(l0, l1):
        key = (b["chain"], b["seq"], b.get("icode", ""))
        if b["name"] in seen.setdefault(key, {}):
            res.bad("C03:ffout:duplicate-name", f"{ff} --ffout={scheme}: residue {a['resn']} {key[1]} ({case['name']} at {case['pos']}) is written with "
                    f"two atoms named {b['name']} ({seen[key][b['name']]} and {a['name']})")  # fmt: skip
            break
        seen[key][b["name"]] = a["name"]
        renamed = renamed or b["name"] != a["name"] or b["resn"] != a["resn"]
    res.nontrivial = renamed
    return res


def altname_cases():
    """Every residue type x chain position x heavy-only / all-hydrogen input, written with the
    alternative (old / other-program) atom names of the topology files wherever one exists, in the
    modes in which nothing may move: each input atom must arrive under its canonical name at its own
    coordinates.  Finite, enumerated completely."""
    from . import c06

    out = []
    k = 0
    for name in topo.AA20 + topo.VARIANTS:
        for pos in "NMC":
            for hyd in ("none", "all"):
                for mode in (["--nodebump", "--noopt"], ["--clean"], []):
                    for altmod in (1, 2):
                        k += 1
                        ch = dict(c06._context(k % 3, name, pos), hyd=hyd, altmod=altmod)
                        if mode == [] and altmod == 2:
                            continue
                        out.append(dict(part="altnames", desc=dict(chains=[ch], waters=[]), ff=strat.FFS[k % len(strat.FFS)], opts=list(mode)))
            if pos in "NC":
                # neutral termini (PARSE): the alternative names of the terminal oxygens / the heavy atoms stay valid
                k += 1
                ch = dict(c06._context(k % 3, name, pos), hyd="none", altmod=1)
                out.append(dict(part="altnames", desc=dict(chains=[ch], waters=[]), ff="PARSE",
                                opts=["--nodebump", "--noopt", "--neutraln" if pos == "N" else "--neutralc"]))
    return out


def parts(tier):
    from . import c02, c16

    return [
        Part("acidtable", check, cases=lambda: e2e.acid_table("acidtable"), exhaustive=True),
        Part("nettable", check, cases=lambda: e2e.network_cases("nettable", tier), exhaustive=True),
        Part("ligand", check_ligand, strategy=c16.complex_case(), budget=dict(quick=160, thorough=3000)),
        Part("na", check_na, strategy=c02.na_case().map(lambda c: dict(c, part="na")), budget=dict(quick=160, thorough=3000)),
        Part("ffout", check_ffout, cases=lambda: ffout_cases(tier), exhaustive=True),
        Part("altnames", check, cases=altname_cases, exhaustive=True),
        Part("e2e", check, strategy=case(), budget=dict(quick=640, thorough=12000)),
        Part("big", check_big, strategy=big_case(), budget=dict(quick=128, thorough=2400)),
        Part("windows", check, strategy=window_case(), budget=dict(quick=240, thorough=5000)),
    ]


def selftest():
    topo.selftest()
