"""C04 - input coordinates are preserved; only rigid side-chain rotations move atoms."""

import numpy as np
from hypothesis import strategies as st

from .. import e2e, geom, strat, topo
from ..core import Part, Result

ID = "C04"
RULE = (
    "Generated structures in contact mode (a second/third chain or waters placed 2.2-3.6 A from a "
    "drawn atom of the first chain; 'wild' uniform torsions in half of the cases) so that added "
    "hydrogens clash and debumping / flipping fires; every residue type at every chain position; "
    "heavy-only and all-hydrogen inputs; options default/--noopt/--nodebump/--nodebump --noopt/"
    "--assign-only/--clean.  Oracle: input heavy atoms matched to output atoms by key; N CA C O OXT "
    "must not move (1e-6 A); every star (heavy atom + its heavy neighbours) and every ring must "
    "superpose input->output with RMSD <= 1e-5 A by a proper rotation; with --nodebump only "
    "ASN/GLN/HIS may move and only by a 180 deg flip; with --clean/--assign-only/--nodebump --noopt "
    "nothing moves (1e-9).  Non-trivial = run in which >= 1 debump torsion change was applied "
    "(observed through a harness wrapper on Debump.set_dihedral_angle) or >= 1 input heavy atom moved."
    ' tiptable: EXHAUSTIVE directed clashes (residue type x tip x gap x atom order x conformer; '
    'dropped tip under every debump/opt mode; titration route; all-hydrogen inputs; far from the '
    "origin).  altnames: C03's alternative-name table (frozen modes, neutral termini).  na: strands "
    '- nucleotide atoms never move.  e2e also on the titration route (heavy atoms only in frozen '
    'modes there).'
)
ASSUMPTIONS = [
    "input coordinates are what the PDB file carries (3 decimals)",
    "template bond graph (read independently) defines stars and rings",
]

MODES = [[], [], [], [], ["--noopt"], ["--nodebump"], ["--nodebump", "--noopt"], ["--assign-only"], ["--clean"]]
CALLS = []
_installed = False


def install_wrapper():
    global _installed
    if _installed:
        return
    from pdb2pqr import debump

    orig = debump.Debump.set_dihedral_angle

    def wrapped(self, residue, anglenum, angle):
        CALLS.append((str(residue), residue.reference.dihedrals[anglenum]))
        return orig(self, residue, anglenum, angle)

    debump.Debump.set_dihedral_angle = wrapped
    _installed = True


@st.composite
def case(draw):
    mode = draw(st.sampled_from(MODES))
    hyd = "all" if mode == ["--assign-only"] else None
    wild = draw(st.booleans())
    desc = draw(e2e.structure(max_chains=3, nmax=5, wild=wild, contact=True, hyd=hyd,
                              missing=draw(st.integers(0, 2)) == 0 and mode not in (["--assign-only"], ["--clean"])))  # fmt: skip
    ff = draw(st.sampled_from(strat.FFS))
    tit = e2e.draw_titration(draw, desc, 4) if mode not in (["--clean"], ["--assign-only"]) else None
    return dict(part="e2e", desc=desc, ff=ff, opts=list(mode) + e2e.neutral_opts(draw, ff, mode), wild=wild, tit=tit)


RINGS = {
    "PHE": [["CG", "CD1", "CD2", "CE1", "CE2", "CZ", "CB"]],
    "TYR": [["CG", "CD1", "CD2", "CE1", "CE2", "CZ", "OH", "CB"]],
    "TRP": [["CG", "CD1", "CD2", "NE1", "CE2", "CE3", "CZ2", "CZ3", "CH2", "CB"]],
    "HIS": [["CG", "ND1", "CD2", "CE1", "NE2", "CB"]],
    "PRO": [["N", "CA", "CB", "CG", "CD"]],
}
FLIP_DIHEDRAL = {"ASN": ["CA", "CB", "CG", "OD1"], "GLN": ["CB", "CG", "CD", "OE1"], "HIS": ["CA", "CB", "CG", "ND1"]}


def check(case):
    install_wrapper()
    res = Result()
    desc, ff, opts = case["desc"], case["ff"], case["opts"]
    del CALLS[:]
    topts = e2e.apply_titration(desc, case.get("tit"), opts)
    s, r = e2e.run_case(desc, ff, opts + topts)
    ncalls = len(CALLS)
    mode = " ".join(o for o in opts if not o.startswith("--neutral")) or "default"
    if topts:
        res.label("titration")
    res.label(f"mode={mode}", "wild" if case.get("wild") else "wells")
    if not r.ok:
        res.label("run-failed")
        return res
    A = e2e.analyse(desc, ff, opts, s, r)
    frozen = mode in ("--clean", "--assign-only", "--nodebump --noopt")
    moved_any = False
    for g, names in A.inp.items():
        entry = A.by_group.get(g)
        if entry is None or g[0] != "chain":
            if entry is not None and g[0] == "water" and "O" in entry["atoms"]:
                a = entry["atoms"]["O"]
                if np.linalg.norm(np.array(a.coords) - names["O"]) > 1e-6:
                    res.bad("C04:water-moved", f"water oxygen {g} moved")
            continue
        ci, i = g[1], g[2]
        rn = desc["chains"][ci]["seq"][i]
        base = topo.BASE.get(rn, rn)
        out = {k: np.array(a.coords) for k, a in entry["atoms"].items()}
        # The carboxylic-acid optimiser may exchange the *names* of the two chemically
        # equivalent oxygens of ASH/GLH (the proton is always called HD2/HE2): no atom
        # moves.  Compare such a pair as an unordered set.
        for o1, o2, c, cb in (("OD1", "OD2", "CG", "CB"), ("OE1", "OE2", "CD", "CG")):
            if base in ("ASP", "GLU") and all(k in out and k in names for k in (o1, o2)) and \
                    float(np.linalg.norm(out[o1] - names[o2])) < 1e-6 and float(np.linalg.norm(out[o2] - names[o1])) < 1e-6:
                # pure name exchange (also when the carboxyl carbon itself was missing from the input)
                out[o1], out[o2] = out[o2], out[o1]
                res.label("carboxyl-names-swapped")
            elif base in ("ASP", "GLU") and all(k in out and k in names for k in (o1, o2, c)):
                anchor_atoms = [c] + ([cb] if cb in out and cb in names else [])
                star = anchor_atoms + [o1, o2]
                swap = anchor_atoms + [o2, o1]
                e_straight = geom.rmsd_fit([names[k] for k in star], [out[k] for k in star])
                e_swapped = geom.rmsd_fit([names[k] for k in star], [out[k] for k in swap])
                if e_swapped < e_straight:
                    out[o1], out[o2] = out[o2], out[o1]
                    res.label("carboxyl-names-swapped")
            elif base in ("ASP", "GLU") and o1 in out and o2 in out and c in out and cb in out and c in names and cb in names \
                    and (o1 in names) != (o2 in names):  # noqa: E129
                # only one oxygen was supplied (the other one is rebuilt): it may carry either name
                oin = o1 if o1 in names else o2
                oth = o2 if oin == o1 else o1
                star = [c, cb, oin]
                e_straight = geom.rmsd_fit([names[k] for k in star], [out[k] for k in star])
                e_swapped = geom.rmsd_fit([names[k] for k in star], [out[c], out[cb], out[oth]])
                if e_swapped < e_straight:
                    out[o1], out[o2] = out[o2], out[o1]
                    res.label("carboxyl-names-swapped")
        inp = {k: v for k, v in names.items() if k in out}
        disp = {k: float(np.linalg.norm(out[k] - v)) for k, v in inp.items()}
        heavy_moved = [k for k, d in disp.items() if d > 1e-6 and topo.heavy(k)]
        if heavy_moved:
            moved_any = True
        pos = "N-term" if i == 0 else ("C-term" if i == len(desc["chains"][ci]["seq"]) - 1 else "mid")
        for k in ("N", "CA", "C", "O", "OXT"):
            if k in disp and disp[k] > 1e-6:
                res.bad(f"C04:backbone-moved:{k}", f"{rn} ({pos}, {mode}): {k} moved by {disp[k]:.3f} A")
        if frozen:
            # (on the titration route input hydrogens are stripped and rebuilt by design: heavy atoms only)
            fdisp = {k: v for k, v in disp.items() if topo.heavy(k)} if topts else disp
            worst = max(fdisp.values(), default=0.0)
            if worst > 1e-9:
                k = max(fdisp, key=fdisp.get)
                res.bad("C04:moved-in-frozen-mode", f"{rn} ({mode}): input atom {k} moved by {worst:.3g} A")
            continue
        if not heavy_moved:
            continue
        bonds = topo.RES[base]["bonds"]
        hv = [k for k in inp if topo.heavy(k)]
        for c in hv:
            star = [c] + [n for n in bonds.get(c, []) if n in inp and topo.heavy(n)]
            if len(star) < 3:
                continue
            e = geom.rmsd_fit([inp[k] for k in star], [out[k] for k in star])
            if e > 1e-5:
                res.bad("C04:not-rigid:star", f"{rn} ({pos}, {mode}): geometry around {c} changed "
                        f"(RMSD {e:.4f} A over {star})")  # fmt: skip
                break
        for ring in RINGS.get(base, []):
            ring = [k for k in ring if k in inp]
            if len(ring) >= 4:
                e = geom.rmsd_fit([inp[k] for k in ring], [out[k] for k in ring])
                if e > 1e-5:
                    res.bad("C04:not-rigid:ring", f"{rn} ({pos}, {mode}): ring deformed (RMSD {e:.4f} A)")
        if "--nodebump" in opts:
            quad = FLIP_DIHEDRAL.get(base)
            if quad is None:
                res.bad("C04:moved-without-debump", f"{rn} ({mode}): atoms {heavy_moved} moved although "
                        f"debumping is off and the residue cannot flip")  # fmt: skip
            elif all(k in inp for k in quad):
                d0 = geom.dihedral(*(inp[k] for k in quad))
                d1 = geom.dihedral(*(out[k] for k in quad))
                if geom.angdiff(d1 - d0, 180.0) > 0.05:
                    res.bad("C04:flip-not-180", f"{rn} ({mode}): rotation of {geom.angdiff(d1, d0):.2f} deg, not a flip")
    res.nontrivial = ncalls > 0 or moved_any
    res.label("debump-rotation" if ncalls else "no-rotation", "input-moved" if moved_any else "input-fixed")
    return res


@st.composite
def window_case(draw):
    mode = draw(st.sampled_from([[], [], [], [], ["--noopt"], ["--nodebump"], ["--nodebump", "--noopt"], ["--clean"]]))
    return dict(part="windows", desc=draw(e2e.window_structure()), ff=draw(st.sampled_from(strat.FFS)), opts=list(mode), wild=False)


def tip_cases(tier="quick"):
    ffs = ["AMBER", "CHARMM", "PARSE"]
    return [dict(part="tiptable", desc=d["desc"], ff=ffs[k % 3], opts=d["opts"], wild=False, tit=d.get("tit"))
            for k, d in enumerate(e2e.tip_table(tier))]


def _na_cases():
    from . import c02

    return c02.na_case().map(lambda c: dict(c, part="na"))


def check_na(case):
    """Nucleotides are never debumped or flipped: every input heavy atom (the 5'-terminal phosphate
    aside) must be in the model at its input coordinates (relation shared with C03's strand part)."""
    from . import c03

    inner = c03.check_na(case)
    res = Result()
    for sig, msg in inner.violations:
        if sig in ("C03:na:replaced-heavy", "C03:na:lost-heavy"):
            res.bad("C04:na:" + sig.rsplit(":", 1)[1].replace("replaced-heavy", "moved").replace("lost-heavy", "lost"), msg)
    res.nontrivial = inner.nontrivial
    res.labels = list(inner.labels)
    return res


def _altname_cases():
    from . import c03

    return [dict(c, wild=False) for c in c03.altname_cases() if c["opts"] != ["--clean"] or c["desc"]["chains"][0]["altmod"] == 1]


def parts(tier):
    return [
        Part("tiptable", check, cases=lambda: tip_cases(tier), exhaustive=True),
        Part("altnames", check, cases=_altname_cases, exhaustive=True),
        Part("na", check_na, strategy=_na_cases(), budget=dict(quick=160, thorough=3000)),
        Part("e2e", check, strategy=case(), budget=dict(quick=640, thorough=12000)),
        Part("windows", check, strategy=window_case(), budget=dict(quick=240, thorough=5000)),
    ]


def selftest():
    topo.selftest()
    geom.selftest()
