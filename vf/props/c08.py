"""C08 - the PQR file is a faithful, re-readable serialisation of the model."""

import argparse
import io
import os
import shutil

from hypothesis import strategies as st

from .. import colfmt, strat
from ..core import Part, Result, scratch_dir

ID = "C08"
RULE = (
    "atom: generated atom records (type, serial 1..5e6, 1-4 char atom names incl. primes/quotes/"
    "digits, 1-4 char residue names, chain letter/digit/blank, residue number -9999..99999, "
    "insertion code, coordinates up to +-99999.999, charge |q|<10, radius <10) serialised by the "
    "real Atom.get_pqr_string + main.print_pqr for the 4 combinations of --whitespace/--keep-chain "
    "and read back (a) by fixed columns, (b) by whitespace tokens, (c) by io.read_pqr.  "
    "Non-trivial = atom with >= 1 field at a width boundary (4-char names, 4/5-digit numbers, "
    "insertion code, 3-digit negative number, 8-character coordinate).  "
    "run: generated structures through the whole program, file vs returned model."
)
ASSUMPTIONS = [
    "fixed layout = PDB columns up to z, charge in 8 and radius in 7 further columns",
    "digit-only chain ids are excluded from the whitespace round trip (ambiguous in the PQR grammar itself)",
    "values that do not fit their PDB column are known findings (3 signatures), everything that fits must round-trip",
]

NAME_CHARS = "ABCDEFGHIJKLMNOPQRSTUVWXYZ0123456789'\"*"


def _name():
    return st.one_of(
        st.sampled_from(["N", "CA", "C", "O", "HD11", "HH12", "O5'", "H5''", "C1'", "OP1", "1HB", "H2''", "O", "FE"]),
        st.text(alphabet=NAME_CHARS, min_size=1, max_size=4),
    )


def _resn():
    return st.one_of(
        st.sampled_from(["ALA", "HOH", "DA", "A", "NALA", "CHID", "LIG", "NME", "RA5"]),
        st.text(alphabet="ABCDEFGHIJKLMNOPQRSTUVWXYZ0123456789", min_size=1, max_size=4),
    )


def _coord(wide):
    fit = [strat.fl(-99.0, 999.0), strat.fl(-999.999, 9999.999), strat.fl(-999.999, 9999.999),
           st.sampled_from([0.0, -0.0004, 999.9995, -99.9995, 9999.999, -999.999, 1000.0, -100.0,
                            0.0005, 9999.9994, -999.9994, 100.0005])]  # fmt: skip
    if wide:
        fit += [strat.fl(-99999.999, 99999.999), strat.fl(-99999.999, 99999.999),
                st.sampled_from([99999.999, -1000.0, 10000.0, 12345.6785, -9999.9996])]  # fmt: skip
    return st.one_of(*fit)


@st.composite
def atom_rec(draw):
    over = draw(st.sampled_from([None, None, None, None, None, None, "serial", "res_seq", "coord", "chain"]))
    serial = st.one_of(st.integers(1, 99999), st.sampled_from([9999, 10000, 99999]))
    if over == "serial":
        serial = st.one_of(st.integers(100000, 5_000_000), st.sampled_from([100000, 1234567]))
    res_seq = st.one_of(st.integers(-99, 999), st.integers(-999, 9999),
                        st.sampled_from([999, 1000, 9999, -99, -100, -999, 0]))  # fmt: skip
    if over == "res_seq":
        res_seq = st.one_of(st.integers(-9999, -1000), st.integers(10000, 99999))
    return dict(
        type=draw(st.sampled_from(["ATOM", "ATOM", "HETATM"])),
        serial=draw(serial),
        name=draw(_name()), res_name=draw(_resn()),
        chain=draw(st.sampled_from(["AA", "AB", "B12", "Ax"])) if over == "chain" else
        draw(st.sampled_from(["A", "B", "Z", "a", "x", "", "", "1", "9"])),  # mmCIF author chain ids may be longer
        res_seq=draw(res_seq),
        ins_code=draw(st.sampled_from(["", "", "", "A", "B", "Z"])),
        x=draw(_coord(over == "coord")), y=draw(_coord(over == "coord")), z=draw(_coord(over == "coord")),
        q=draw(st.one_of(strat.fl(-2.0, 2.0), strat.fl(-9.9999, 9.9999),
                         st.sampled_from([0.0, -0.00004, 0.00005, -9.9999, 9.9999]))),
        r=draw(st.one_of(strat.fl(0.0, 3.0), strat.fl(0.0, 9.9999), st.sampled_from([0.0, 0.00005]))),
    )  # fmt: skip


@st.composite
def atom_case(draw):
    return dict(part="atom", atoms=draw(st.lists(atom_rec(), min_size=1, max_size=6)))


def _fits(rec):
    """Which fields cannot be represented in their PDB column (known findings)."""
    out = []
    if len(str(rec["serial"])) > 5:
        out.append("serial")
    if len(str(rec["res_seq"])) > 4:
        out.append("res_seq")
    for k in "xyz":
        if len(f"{rec[k]:.3f}") > 8:
            out.append("coordinate")
            break
    if len(rec["chain"]) > 1:
        out.append("chain_id")
    return out


def _boundary(rec):
    return (
        len(rec["name"]) == 4 or len(rec["res_name"]) == 4 or len(str(rec["serial"])) >= 5
        or len(str(rec["res_seq"])) >= 4 or rec["ins_code"] != ""
        or any(len(f"{rec[k]:.3f}") >= 8 for k in "xyz")
    )  # fmt: skip


def _make_atom(rec):
    from pdb2pqr.structures import Atom

    a = Atom()
    a.type = rec["type"]
    a.serial = rec["serial"]
    a.name = rec["name"]
    a.res_name = rec["res_name"]
    a.chain_id = rec["chain"]
    a.res_seq = rec["res_seq"]
    a.ins_code = rec["ins_code"]
    a.x, a.y, a.z = rec["x"], rec["y"], rec["z"]
    a.ffcharge = rec["q"]
    a.radius = rec["r"]
    return a


def _compare(res, rec, got, tag, keep_chain, overflow, check_chain=True):
    """Compare one read-back record with the model; overflow fields -> known signatures."""

    def bad(field, what):
        if field == "chain" and "chain_id" in overflow:
            field = "chain_id"
        if field in overflow or (field in "xyz" and "coordinate" in overflow):
            f = "coordinate" if field in "xyz" else field
            res.bad(f"C08:overflow:{f}", f"{tag}: {what} (value does not fit its PDB column)")
        else:
            res.bad(f"C08:{tag}:{field}", what)

    if got["rec"] != rec["type"]:
        bad("type", f"record type {got['rec']!r} != {rec['type']!r}")
    if got["serial"] != rec["serial"]:
        bad("serial", f"serial {got['serial']} != {rec['serial']}")
    if got["name"] != rec["name"]:
        bad("name", f"atom name {got['name']!r} != {rec['name']!r}")
    if got["resn"] != rec["res_name"]:
        bad("res_name", f"residue name {got['resn']!r} != {rec['res_name']!r}")
    if check_chain:
        exp_chain = rec["chain"] if keep_chain else ""
        if got["chain"] != exp_chain:
            bad("chain", f"chain {got['chain']!r} != {exp_chain!r}")
    if got["seq"] != rec["res_seq"]:
        bad("res_seq", f"residue number {got['seq']} != {rec['res_seq']}")
    if got.get("icode", "") != rec["ins_code"]:
        bad("ins_code", f"insertion code {got.get('icode')!r} != {rec['ins_code']!r}")
    for k in "xyz":
        if abs(got[k] - rec[k]) > 0.00051:
            if "coordinate" in overflow and abs(got[k] - rec[k]) > 0.11:
                # the known overflow only cuts trailing decimals (precision); anything else is a wrong number
                res.bad(f"C08:{tag}:coordinate-corrupted", f"{k} {got[k]} != {rec[k]}: more than the trailing decimals of an over-wide value are lost")
            else:
                bad(k, f"{k} {got[k]} != {rec[k]}")
    if abs(got["q"] - rec["q"]) > 0.000051:
        bad("charge", f"charge {got['q']} != {rec['q']}")
    if abs(got["r"] - rec["r"]) > 0.000051:
        bad("radius", f"radius {got['r']} != {rec['r']}")


def check_atom(case):
    from pdb2pqr import io as pio
    from pdb2pqr import main as pmain

    res = Result()
    d = scratch_dir()
    try:
        recs = case["atoms"]
        for ws in (False, True):
            for keep in (False, True):
                tag = ("ws" if ws else "fixed") + ("+chain" if keep else "")
                lines = [_make_atom(r).get_pqr_string(chainflag=keep) + "\n" for r in recs]
                lines += ["TER\n", "END\n"]
                path = os.path.join(d, "o.pqr")
                ns = argparse.Namespace(output_pqr=path, whitespace=ws)
                pmain.print_pqr(args=ns, pqr_lines=lines, header_lines="", missing_lines=None, is_cif=False)
                with open(path) as fh:
                    text = fh.read()
                atom_lines = [ln for ln in text.splitlines() if ln.startswith(("ATOM", "HETATM"))]
                if len(atom_lines) != len(recs):
                    res.bad(f"C08:{tag}:line-count", f"{len(atom_lines)} atom lines for {len(recs)} atoms")
                    continue
                for rec, ln in zip(recs, atom_lines):
                    overflow = _fits(rec)
                    ambiguous = ws and keep and rec["chain"].isdigit()
                    try:
                        got = colfmt.pqr_tokens(ln) if ws else colfmt.pqr_fixed(ln)
                    except Exception as e:  # noqa: BLE001
                        if overflow:
                            res.bad(f"C08:overflow:{overflow[0]}", f"{tag}: line not readable: {ln!r}")
                        elif not ambiguous:
                            res.bad(f"C08:{tag}:unreadable", f"{ln!r}: {e}")
                        continue
                    if not ambiguous:
                        _compare(res, rec, got, tag, keep, overflow)
                    if ws and not ambiguous:
                        try:
                            a = pio.read_pqr(io.StringIO(ln + "\n"))[0]
                            own = dict(rec=a.type, serial=a.serial, name=a.name, resn=a.res_name,
                                       chain=a.chain_id or "", seq=a.res_seq, icode=a.ins_code or "",
                                       x=a.x, y=a.y, z=a.z, q=a.charge, r=a.radius)  # fmt: skip
                        except Exception as e:  # noqa: BLE001
                            if overflow:
                                res.bad(f"C08:overflow:{overflow[0]}", f"{tag}: own reader fails on {ln!r}")
                            else:
                                res.bad(f"C08:{tag}:own-reader-fails", f"io.read_pqr cannot read {ln!r}: {e!r}")
                            continue
                        _compare(res, rec, own, tag + ":own-reader", keep, overflow)
        res.nontrivial = any(_boundary(r) for r in recs)
        for r in recs:
            res.label(*(["overflow"] if _fits(r) else []), *(["boundary"] if _boundary(r) else ["plain"]),
                      *(["icode"] if r["ins_code"] else []))  # fmt: skip
    finally:
        shutil.rmtree(d, ignore_errors=True)
    return res


# ------------------------------------------------------------------ run level: file vs returned model
@st.composite
def run_case(draw):
    from .. import e2e

    mode = draw(st.sampled_from([["--clean"], [], [], ["--noopt"], ["--nodebump", "--noopt"], ["--assign-only"]]))
    hyd = "all" if mode == ["--assign-only"] else None
    desc = draw(e2e.structure(max_chains=3, nmax=4, contact=False, hyd=hyd, variants=0.15, cif=True))
    # insertion codes / numbering at the column boundaries
    for ch in desc["chains"]:
        n = len(ch["seq"])
        if draw(st.integers(0, 2)) == 0:
            strat.add_insertion_codes(draw, ch)
    opts = list(mode)
    for o in ("--whitespace", "--keep-chain"):
        if draw(st.booleans()):
            opts.append(o)
    if mode != ["--clean"] and draw(st.integers(0, 2)) == 0:
        opts.append("--ffout=" + draw(st.sampled_from(strat.FFS)))  # output naming scheme (CHARMM: residue TER ...)
    return dict(part="run", desc=desc, ff=draw(st.sampled_from(strat.FFS)), opts=opts,
                big=draw(st.sampled_from([None, None, [-150.0, 1200.0, -250.0]])))  # fmt: skip


def check_run(case):
    from .. import e2e

    res = Result()
    desc, ff, opts = case["desc"], case["ff"], case["opts"]
    if case.get("big"):
        for ci, ch in enumerate(desc["chains"]):
            ch.pop("contact", None)
            ch["shift"] = [case["big"][0] + 40.0 * ci, case["big"][1], case["big"][2]]
    s, r = e2e.run_case(desc, ff, opts)
    ws, keep = "--whitespace" in opts, "--keep-chain" in opts
    res.label("ws" if ws else "fixed", "keep-chain" if keep else "no-chain", "clean" if "--clean" in opts else "ff-run",
              "big-coords" if case.get("big") else "small-coords", "mmcif-input" if desc.get("cif") else "pdb-input",
              *[o for o in opts if o.startswith("--ffout")])  # fmt: skip
    if not r.ok:
        res.label("run-failed", "fail:" + r.exc_text[:40])
        return res
    A = e2e.analyse(desc, ff, opts, s, r)
    for sig, msg in A.problems:
        if sig.startswith("C08"):
            res.bad(sig, msg)
        elif sig == "C03:partition":
            res.bad("C08:run:line-count", "atoms of the computed model are not all in the file: " + msg)
    if A.pairs is None:
        res.label("unpaired")
        return res
    boundary = False
    for k, (ln, a) in enumerate(A.pairs):
        tag = ("ws" if ws else "fixed") + ("+chain" if keep else "") + (":clean" if "--clean" in opts else "")
        exp_chain = (a.chain_id or "") if keep else ""
        checks = [
            ("type", ln["rec"], a.type), ("serial", ln["serial"], k + 1), ("name", ln["name"], a.name),
            ("res_name", ln["resn"], a.res_name), ("chain", ln["chain"], exp_chain), ("res_seq", ln["seq"], a.res_seq),
            ("ins_code", ln.get("icode", ""), a.ins_code or ""),
        ]  # fmt: skip
        for field, got, want in checks:
            if got != want and field == "res_seq" and len(str(want)) > 4:
                res.bad("C08:overflow:res_seq", f"{tag}: residue number in the file {got!r}, in the model {want!r}")
                break
            if got != want and field == "chain" and len(want) > 1:
                # multi-character (mmCIF) chain id: does not fit the one-character chain column
                res.bad("C08:overflow:chain_id", f"{tag}: chain in the file {got!r}, in the model {want!r}")
                break
            if got != want:
                res.bad(f"C08:run:{tag}:{field}", f"{field} in the file {got!r}, in the model {want!r} (atom {a.name} of {a.residue})")
                break
        for field, got, want, tol in (("x", ln["x"], a.x, 5.1e-4), ("y", ln["y"], a.y, 5.1e-4), ("z", ln["z"], a.z, 5.1e-4),
                                      ("charge", ln["q"], a.ffcharge or 0.0, 5.1e-5), ("radius", ln["r"], a.radius or 0.0, 5.1e-5)):  # fmt: skip
            if abs(got - want) > tol:
                res.bad(f"C08:run:{tag}:{field}", f"{field} in the file {got}, in the model {want} (atom {a.name} of {a.residue})")
                break
        if len(a.name) == 4 or (a.ins_code or "") or len(f"{a.x:.3f}") >= 8 or len(str(a.res_seq)) >= 4:
            boundary = True
    digit_chain = keep and any((a.chain_id or "").isdigit() for _ln, a in A.pairs)
    if ws and digit_chain:
        res.label("excluded-digit-chain-id")  # ambiguous in the whitespace PQR grammar itself
    if ws and not digit_chain:
        import io as _io

        from pdb2pqr import io as pio

        try:
            own = pio.read_pqr(_io.StringIO(r.pqr_text))
            if len(own) != len(A.pairs):
                res.bad("C08:run:own-reader:count", f"io.read_pqr returns {len(own)} atoms for {len(A.pairs)} written")
            else:
                for o, (ln, a) in zip(own, A.pairs):
                    if len(str(a.res_seq)) > 4:
                        continue  # known finding C08:overflow:res_seq (reported above)
                    if (o.name, o.res_name, o.res_seq, o.ins_code or "") != (a.name, a.res_name, a.res_seq, a.ins_code or "") or \
                            abs(o.x - a.x) > 5.1e-4 or abs(o.charge - (a.ffcharge or 0.0)) > 5.1e-5 or \
                            (keep and len(a.chain_id or "") <= 1 and (o.chain_id or "") != (a.chain_id or "")):
                        res.bad("C08:run:own-reader:fields", f"io.read_pqr gives {(o.name, o.res_name, o.chain_id, o.res_seq, o.ins_code)} for "
                                f"{(a.name, a.res_name, a.chain_id, a.res_seq, a.ins_code)}")  # fmt: skip
                        break
        except Exception as e:  # noqa: BLE001
            res.bad("C08:run:own-reader:fails", f"io.read_pqr cannot read the file pdb2pqr just wrote: {e!r}")
    res.nontrivial = boundary
    return res


def parts(tier):
    return [
        Part("atom", check_atom, strategy=atom_case(), budget=dict(quick=6000, thorough=80000)),
        Part("run", check_run, strategy=run_case(), budget=dict(quick=400, thorough=8000)),
    ]


def selftest():
    colfmt.selftest()
