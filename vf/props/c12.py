"""C12 - runs succeed on well-formed input, otherwise fail loudly leaving no output."""

import os
import shutil

import numpy as np

from hypothesis import strategies as st

from .. import build, e2e, pipeline, strat, topo
from ..core import Part, Result, scratch_dir

ID = "C12"
RULE = (
    "success: generated structures of COMPLETE standard residues (20 amino acids, chains of 2-6, "
    "1-3 chains, OXT present, heavy-only or all-hydrogen), DNA/RNA strands and waters x every "
    "built-in force field that defines the class (proteins: all six; RNA: AMBER CHARMM PARSE TYL06; "
    "DNA: AMBER CHARMM TYL06) x options (default/--noopt/--nodebump/--neutraln/--neutralc with "
    "PARSE): must not raise, output exists, ends with END, has one line per parameterised atom.  "
    "fail: malformed inputs / unusable options (empty, garbage, truncated or non-numeric coordinate "
    "records, unrepairable structure, missing files, --neutraln without PARSE, pH out of range, "
    "no force field, --assign-only on an incomplete structure) and FAULT INJECTION: a drawn stage "
    "function (check_files, check_options, get_definitions, get_molecule, drop_water, setup_molecule, "
    "Biomolecule.set_termini/update_bonds/repair_heavy/update_ss_bridges/add_hydrogens/set_states/"
    "apply_force_field/apply_name_scheme, Debump.debump_biomolecule, HydrogenRoutines."
    "optimize_hydrogens/cleanup, Forcefield.__init__, noninteger_charge, print_biomolecule_atoms) "
    "is wrapped to raise at its k-th call; output path absent or pre-filled with a sentinel.  Oracle: "
    "the run raises and the output path is absent / byte-identical to the sentinel with unchanged "
    "mtime.  Non-trivial = success case with a terminal residue of each class present, or failure "
    "injected after parsing succeeded."
    ' malformed-enum: EXHAUSTIVE malformed-input kinds (incl. mmCIF rows with unreadable coordinate '
    '/ residue number, non-integral user force fields with 4 offsets) x 4 fixed structures (one of '
    '14 residues) x output absent/pre-filled.'
    ' success also on `big` structures.  ligand: a peptide + generated MOL2 ligand complex must succeed; the same complex whose ligand HETATM block lacks one fractionally charged atom (|q| >= 0.05 from an integer) must fail and leave the output path untouched.'
)
ASSUMPTIONS = [
    "failures of secondary outputs (--pdb-output/--apbs-input) after a complete PQR are outside the statement",
    "an injected fault stands for any exception a stage can raise",
]

PROTEIN_FFS = strat.FFS
RNA_FFS = ["AMBER", "CHARMM", "PARSE", "TYL06"]
DNA_FFS = ["AMBER", "CHARMM", "TYL06"]


# ------------------------------------------------------------------ success side
@st.composite
def success_case(draw):
    kind = draw(st.sampled_from(["protein", "protein", "protein", "na", "mixed", "big"]))
    desc = dict(chains=[])
    ffs = list(PROTEIN_FFS)
    if kind == "big":
        # 4-30 chains, one long chain, protein + strands: complete standard residues
        d = draw(e2e.big_structure(nmin=2, variants=0, oxt=True, hyd=draw(st.sampled_from(["none", "none", "all"]))))
        for w_ in d.get("waters", []):
            if w_.get("h") == "H2":
                w_["h"] = "both"
        desc.update(d)
        if d.get("na"):
            ffs = DNA_FFS if any(x["dna"] for x in d["na"]) else RNA_FFS
    if kind in ("protein", "mixed"):
        d = draw(e2e.structure(max_chains=3, nmax=6, nmin=2, variants=0, oxt=True, contact=draw(st.booleans()),
                               hyd=draw(st.sampled_from(["none", "none", "all"]))))  # fmt: skip
        for ch_ in d["chains"]:
            ch_.pop("extra", None)  # success side: complete STANDARD residues only (no undefined atoms)
        for w_ in d.get("waters", []):
            if w_.get("h") == "H2":
                w_["h"] = "both"  # ... and complete waters only
        desc.update(d)
    if kind in ("na", "mixed"):
        from . import c02

        na = draw(c02.na_case())
        desc["na"] = na["desc"]["na"]
        any_dna = any(x["dna"] for x in desc["na"])
        ffs = DNA_FFS if any_dna else RNA_FFS
        if kind == "na":
            desc["waters"] = []
    if kind == "protein" and len(desc["chains"]) > 1 and draw(st.integers(0, 3)) == 0:
        # several complete peptides under ONE chain id without TER records (hidden chain ends)
        if desc["chains"][0]["start"] > 9000:
            desc["chains"][0]["start"] = 1
        for ch_ in desc["chains"]:
            ch_.pop("altmod", None)  # a hidden chain end is recognised by an atom NAMED OXT
        for prev, nxt in zip(desc["chains"], desc["chains"][1:]):
            prev["oxt"], prev["ter"] = True, False
            nxt["id"] = prev["id"]
            nxt["start"] = prev["start"] + len(prev["seq"]) + 2
    ff = draw(st.sampled_from(ffs))
    opts = list(draw(st.sampled_from([[], [], [], ["--noopt"], ["--nodebump"], ["--nodebump", "--noopt"]])))
    if ff == "PARSE" and kind == "protein":
        for o in ("--neutraln", "--neutralc"):
            if draw(st.integers(0, 3)) == 0:
                opts.append(o)
    for o in ("--whitespace", "--keep-chain", "--drop-water"):
        if draw(st.integers(0, 4)) == 0:
            opts.append(o)
    return dict(part="success", kind=kind, desc=desc, ff=ff, opts=opts)


def check_success(case):
    res = Result()
    desc, ff, opts = case["desc"], case["ff"], case["opts"]
    s, r = e2e.run_case(desc, ff, opts)
    res.label(f"kind={case['kind']}", f"ff={ff}", *[o for o in opts if o.startswith("--n")])
    res.nontrivial = True
    cpro = "--neutralc" in opts and any(ch["seq"][-1] == "PRO" for ch in desc["chains"])
    if not r.ok:
        sig = "C12:success:run-fails"
        if cpro:
            sig = "C12:parse-neutralc-cpro"
        elif "deviates" in r.exc_text:
            sig = "C12:success:non-integral-charge"
        seqs = [ch["seq"] for ch in desc["chains"]] + [x["seq"] for x in desc.get("na", [])]
        res.bad(sig, f"{ff} {' '.join(opts)} on complete residues {seqs}: {r.exc_text[:140]}")
        return res
    if not r.out_exists:
        res.bad("C12:success:no-output", "run returned normally but wrote no PQR file")
        return res
    lines = r.pqr_text.splitlines()
    nonblank = [ln for ln in lines if ln.strip()]
    ws = "--whitespace" in opts
    if not ws and (not nonblank or nonblank[-1].strip() != "END"):
        res.bad("C12:success:incomplete-file", f"PQR does not end with END (last line {nonblank[-1:]!r})")
    natoms = sum(1 for ln in lines if ln.startswith(("ATOM", "HETATM")))
    nmodel = sum(len(x.atoms) for x in r.bio.residues)
    nmiss = len({id(a) for a in (r.missing or [])})
    if natoms != nmodel - nmiss:
        res.bad("C12:success:line-count", f"{natoms} atom lines for {nmodel} model atoms with {nmiss} unassigned")
    if nmiss:
        # e.g. PEOEPB models the N-terminal proline with one amine hydrogen: the second one is
        # omitted and reported (C01's rule), the run itself is a success.  But an atom that the
        # force field is KNOWN to cover (pinned support matrix) must not lose its parameters.
        res.label("success-with-unassigned-atoms")
        from .. import ffmodel

        gold = ffmodel.golden_support().get(ff, {})
        lost = sorted({f"{getattr(a.residue, 'ffname', a.residue.name)}:{a.name}" for a in r.missing
                       if a.name in gold.get(getattr(a.residue, "ffname", None) or "", [])})
        if lost:
            res.bad("C12:success:coverage-lost", f"{ff} is known to parameterise {lost[:6]} but left them unassigned")
    return res


# ------------------------------------------------------------------ failure side
STAGES = [
    ("pdb2pqr.main", "check_files"), ("pdb2pqr.main", "check_options"), ("pdb2pqr.io", "get_definitions"),
    ("pdb2pqr.io", "get_molecule"), ("pdb2pqr.main", "drop_water"), ("pdb2pqr.main", "setup_molecule"),
    ("pdb2pqr.biomolecule:Biomolecule", "set_termini"), ("pdb2pqr.biomolecule:Biomolecule", "update_bonds"),
    ("pdb2pqr.biomolecule:Biomolecule", "repair_heavy"), ("pdb2pqr.biomolecule:Biomolecule", "update_ss_bridges"),
    ("pdb2pqr.debump:Debump", "debump_biomolecule"), ("pdb2pqr.biomolecule:Biomolecule", "add_hydrogens"),
    ("pdb2pqr.hydrogens:HydrogenRoutines", "optimize_hydrogens"), ("pdb2pqr.hydrogens:HydrogenRoutines", "cleanup"),
    ("pdb2pqr.biomolecule:Biomolecule", "set_states"), ("pdb2pqr.forcefield:Forcefield", "__init__"),
    ("pdb2pqr.biomolecule:Biomolecule", "apply_force_field"), ("pdb2pqr.main", "noninteger_charge"),
    ("pdb2pqr.biomolecule:Biomolecule", "apply_name_scheme"), ("pdb2pqr.io", "print_biomolecule_atoms"),
    ("pdb2pqr.io", "print_pqr_header"), ("pdb2pqr.main", "is_repairable"),
]  # fmt: skip
EXCS = {"ValueError": ValueError, "RuntimeError": RuntimeError, "KeyError": KeyError, "IndexError": IndexError,
        "TypeError": TypeError}  # fmt: skip
MALFORMED = ["userff-nonintegral", "userff-nonintegral", "empty", "garbage", "whitespace-only", "bad-number", "header-only", "unrepairable", "missing-input",
             "neutraln-amber", "ph-range", "no-ff", "assign-only-incomplete", "missing-userff", "userff-without-names",
             "missing-ligand", "unknown-ff", "hetero-only", "cif-bad-coordinate", "cif-unknown-coordinate", "cif-bad-resnum",
             "cif-bad-coordinate"]  # fmt: skip


@st.composite
def fail_case(draw):
    desc = draw(e2e.structure(max_chains=2, nmax=draw(st.sampled_from([4, 4, 12])), nmin=2, variants=0, oxt=True, contact=False))
    kind = draw(st.sampled_from(["inject", "inject", "inject", "malformed"]))
    c = dict(part="fail", kind=kind, desc=desc, ff=draw(st.sampled_from(strat.FFS)),
             prefill=draw(st.booleans()), opts=[])  # fmt: skip
    if kind == "inject":
        c["stage"] = draw(st.integers(0, 10**9)) % len(STAGES)
        c["k"] = draw(st.sampled_from([1, 1, 1, 2, 3]))
        c["exc"] = draw(st.sampled_from(sorted(EXCS)))
        c["opts"] = draw(st.sampled_from([[], ["--noopt"], ["--ffout=AMBER"], ["--drop-water"], ["--nodebump"],
                                          ["--ffout=CHARMM", "--whitespace"], ["--include-header"]]))  # fmt: skip
        if draw(st.integers(0, 3)) == 0:
            desc["chains"][0]["oxt"] = False  # so that repair_heavy runs
    else:
        c["what"] = MALFORMED[draw(st.integers(0, 10**9)) % len(MALFORMED)]
        c["pick"] = draw(st.integers(0, 10**6))
    return c


def _inject(stage_idx, k, exc_name):
    import importlib

    modname, attr = STAGES[stage_idx]
    if ":" in modname:
        modname, clsname = modname.split(":")
        holder = getattr(importlib.import_module(modname), clsname)
    else:
        holder = importlib.import_module(modname)
    orig = holder.__dict__[attr] if isinstance(holder, type) else getattr(holder, attr)
    state = {"n": 0, "fired": False}

    def wrapper(*a, **kw):
        state["n"] += 1
        if state["n"] == k:
            state["fired"] = True
            raise EXCS[exc_name](f"injected fault in {attr} (call {k})")
        return orig(*a, **kw)

    setattr(holder, attr, wrapper)

    def undo():
        setattr(holder, attr, orig)

    return state, undo


def check_fail(case):
    res = Result()
    desc, ff = case["desc"], case["ff"]
    e2e.normalise(desc, [])
    s = build.materialise(desc)
    text = s.text()
    opts = [f"--ff={ff}", *case["opts"]]
    must_fail = True
    in_name = None
    in_file = "in.pdb"
    extra = {}
    if case["kind"] == "malformed":
        w = case["what"]
        res.label(f"malformed={w}")
        if w == "empty":
            text = ""
        elif w == "garbage":
            text = "this is not a pdb file\n\x00\x01 1 2 3\n"
        elif w == "whitespace-only":
            text = "   \n\n\t\n"
        elif w == "bad-number":
            lines = text.splitlines()
            lines[1] = lines[1][:30] + "  abc.de" + lines[1][38:]
            text = "\n".join(lines) + "\n"
        elif w == "header-only":
            text = "HEADER    TEST\nREMARK   1 NOTHING\nEND\n"
        elif w == "unrepairable":
            # backbone only for every residue: far more than 10 % of the heavy atoms missing
            keep = [x for x in s.records if x["name"] in ("N", "CA", "C", "O") or x["resn"] == "GLY"]
            t = build.Structure()
            t.records = keep
            text = t.text()
            must_fail = any(x["resn"] != "GLY" for x in s.records)
        elif w == "missing-input":
            in_name = "in.pdb"
        elif w == "neutraln-amber":
            opts = ["--ff=AMBER", "--neutraln"]
        elif w == "ph-range":
            opts = [f"--ff={ff}", "--with-ph=15.5", "--titration-state-method=propka"]
        elif w == "no-ff":
            opts = []
            must_fail = False  # --ff defaults to PARSE
        elif w == "assign-only-incomplete":
            opts = [f"--ff={ff}", "--assign-only"]  # heavy-only input: hydrogens missing, charges non-integral
            for ch in desc["chains"]:
                ch["hyd"] = "none"
            text = build.materialise(desc).text()
        elif w == "missing-userff":
            opts = ["--userff=@DIR@/nope.dat", "--usernames=@DIR@/nope.names"]
        elif w == "userff-without-names":
            opts = ["--userff=@DIR@/u.dat"]
            extra = {"u.dat": "ALA N -0.4 1.5\n"}
        elif w == "missing-ligand":
            opts = [f"--ff={ff}", "--ligand=@DIR@/nope.mol2"]
        elif w == "unknown-ff":
            opts = ["--ff=NOSUCHFF"]
        elif w == "userff-nonintegral":
            # a parameter file whose charges do not add up (one row off by delta >> 1e-3): the total
            # charge is non-integral whatever the size of the structure
            dat_dir = topo.dat_dir()
            delta = [0.004, 0.012, 0.05, 0.3][case.get("k_delta", len(desc["chains"][0]["seq"])) % 4]
            rows = []
            target = desc["chains"][0]["seq"][1 % len(desc["chains"][0]["seq"])]
            hit = False
            for ln in (dat_dir / "AMBER.DAT").read_text().splitlines():
                f = ln.split()
                if not hit and len(f) >= 4 and f[0] == target and f[1] == "CA" and len(desc["chains"][0]["seq"]) > 2:
                    ln = f"{f[0]}\t{f[1]}\t{float(f[2]) + delta:.4f}\t{f[3]}"
                    hit = True
                rows.append(ln)
            extra = {"bad.dat": "\n".join(rows) + "\n", "bad.names": (dat_dir / "AMBER.names").read_text()}
            opts = ["--userff=@DIR@/bad.dat", "--usernames=@DIR@/bad.names"]
            must_fail = hit
        elif w.startswith("cif-"):
            # mmCIF input with one atom_site row that cannot be read: the atom cannot be placed
            from .. import cifgen

            t = build.Structure()
            t.records = [dict(x) for x in s.records]
            nrec = len(t.records)
            victim = case.get("pick", 7) % nrec
            item, val = {"cif-bad-coordinate": ("Cartn_x", "12.3a4"), "cif-unknown-coordinate": ("Cartn_y", "?"),
                         "cif-bad-resnum": ("auth_seq_id", "?")}[w]
            # the victim row is written through the independent writer with a verbatim item value
            ids = []
            for x in t.records:
                if x["chain"] not in ids:
                    ids.append(x["chain"])
            atoms = []
            nmod = 2 if case["prefill"] and nrec % 2 else 1
            for m in range(1, nmod + 1):
                for k, x in enumerate(t.records):
                    a = dict(rec=x["rec"], serial=k + 1, name=x["name"], alt=" ", resn=x["resn"], chain=x["chain"] if x["chain"].strip() else "Z",
                             label_chain="ABCDEFGHIJ"[ids.index(x["chain"]) % 10], seq=x["seq"], icode=x.get("icode", " "), xyz=x["xyz"],
                             occ=1.0, b=10.0, elem=x["name"].lstrip("0123456789")[0], charge="", model=m,
                             label_seq=(x["group"][2] + 1) if x["group"][0] in ("chain", "na") else x["seq"])  # fmt: skip
                    if k == victim and m == 1:
                        a["raw"] = {item: val}
                    atoms.append(a)
            text = cifgen.cif_text(atoms)
            in_file = "in.cif"
            res.label(f"cif-models={nmod}")
        elif w == "hetero-only":
            text = "HETATM    1 ZN    ZN A   1       1.000   2.000   3.000  1.00  0.00          ZN\nEND\n"
    sentinel = "SENTINEL - must not be touched\n" if case["prefill"] else None
    # run (pipeline.run cleans up its directory; we need mtime -> own directory handling)
    d = scratch_dir()
    state, undo = (None, lambda: None)
    try:
        outp = os.path.join(d, "out.pqr")
        inp = os.path.join(d, in_file)
        if not (case["kind"] == "malformed" and case.get("what") == "missing-input"):
            with open(inp, "w") as fh:
                fh.write(text)
        for name, t in extra.items():
            with open(os.path.join(d, name), "w") as fh:
                fh.write(t)
        mtime = None
        if sentinel is not None:
            with open(outp, "w") as fh:
                fh.write(sentinel)
            os.utime(outp, (1_000_000_000, 1_000_000_000))
            mtime = os.stat(outp).st_mtime_ns
        from pdb2pqr.main import run_pdb2pqr

        pipeline.quiet_logging()
        if case["kind"] == "inject":
            state, undo = _inject(case["stage"], case["k"], case["exc"])
            res.label(f"stage={STAGES[case['stage']][1]}")
        cwd = os.getcwd()
        exc = None
        try:
            os.chdir(d)
            import contextlib
            import io as _io

            with contextlib.redirect_stderr(_io.StringIO()):
                run_pdb2pqr([o.replace("@DIR@", d) for o in opts] + [inp, outp])
        except KeyboardInterrupt:
            raise
        except BaseException as e:  # noqa: BLE001
            exc = e
        finally:
            os.chdir(cwd)
            undo()
        fired = state["fired"] if state else None
        if case["kind"] == "inject" and not fired:
            res.label("fault-not-reached")
            return res
        exists = os.path.exists(outp)
        content = open(outp).read() if exists else None
        if exc is None:
            if must_fail:
                what = case.get("what") or f"fault in {STAGES[case['stage']][1]}"
                res.bad(f"C12:fail:silent-success:{case.get('what', 'inject')}",
                        f"{what}: run returned normally (output {'written' if exists and content != sentinel else 'absent'})")  # fmt: skip
            return res
        res.label(f"raised={type(exc).__name__}")
        if sentinel is None and exists:
            res.bad("C12:fail:output-created", f"run failed ({type(exc).__name__}: {str(exc)[:60]}) but left a file of "
                    f"{len(content)} bytes at the output path")  # fmt: skip
        if sentinel is not None:
            if not exists:
                res.bad("C12:fail:output-removed", "run failed and removed the existing file at the output path")
            elif content != sentinel or os.stat(outp).st_mtime_ns != mtime:
                res.bad("C12:fail:output-modified", f"run failed ({type(exc).__name__}) but modified the existing output file")
        after_parse = case["kind"] == "inject" and case["stage"] >= 5
        res.nontrivial = after_parse or case["kind"] == "malformed"
    finally:
        shutil.rmtree(d, ignore_errors=True)
    return res


def _fixed_descs():
    def ch(cid, seq, start=1, hyd="none", oxt=True):
        n = len(seq)
        return dict(id=cid, start=start, seq=seq, phi=[-65.0] * n, psi=[140.0, -45.0, 135.0, 150.0, -40.0, 140.0][:n],
                    chi=[[-60.0, 180.0, 60.0, 180.0, -60.0]] * n, hyd=hyd, oxt=oxt, q=[1, 0.2, 0.1, 0.3], ter=True)

    return [
        dict(chains=[ch("A", ["ALA", "HIS", "SER", "ASP"])], waters=[dict(anchor=3, dir=[0.3, 1.0, 0.2], d=2.9, chain="W", seq=300)]),
        dict(chains=[ch("A", ["LYS", "CYS", "TYR", "GLY", "ASN"], oxt=False), ch("B", ["GLU", "ARG"], start=20)], waters=[]),
        dict(chains=[ch("C", ["THR", "GLN", "PRO", "TRP"], hyd="all")], waters=[]),
    ]


def malformed_cases():
    """EXHAUSTIVE: every malformed-input / unusable-combination kind x fixed structure (incl. a
    14-residue one: size-dependent tolerances) x output absent / pre-filled; the non-integral user
    force field with every charge offset."""
    out = []
    kinds = sorted(set(MALFORMED))
    for di in range(4):
        for w in kinds:
            for prefill in (False, True):
                deltas = range(4) if w == "userff-nonintegral" else [None]
                for kd in deltas:
                    c = dict(part="malformed-enum", kind="malformed", what=w, fixed=di, ff=["AMBER", "PARSE", "CHARMM", "AMBER"][di],
                             prefill=prefill, opts=[], pick=17 * di + 5)
                    if kd is not None:
                        c["k_delta"] = kd
                    out.append(c)
    return out


def check_malformed_enum(case):
    descs = _fixed_descs() + [dict(chains=[dict(id="A", start=1, seq=["ALA", "SER", "GLY", "LEU", "ASP", "LYS", "THR", "VAL", "ASN", "PHE", "GLU",
                                                                  "ARG", "MET", "GLN"],
                                               phi=[-65.0] * 14, psi=[140.0, -45.0, 135.0, 150.0, -40.0, 140.0, 135.0] * 2,
                                               chi=[[-60.0, 180.0, 60.0, 180.0, -60.0]] * 14, hyd="none", oxt=True, q=[1, 0.2, 0.1, 0.3],
                                               ter=True)], waters=[])]  # fmt: skip
    import copy

    return check_fail(dict(case, desc=copy.deepcopy(descs[case["fixed"]])))


def inject_cases():
    """EXHAUSTIVE fault enumeration: every stage x exception type x call index x output state."""
    out = []
    for di, _d in enumerate(_fixed_descs()):
        for stage in range(len(STAGES)):
            for exc in sorted(EXCS):
                for k in (1, 2):
                    for prefill in (False, True):
                        opts = ["--ffout=AMBER"] if STAGES[stage][1] == "apply_name_scheme" else (
                            ["--drop-water"] if STAGES[stage][1] == "drop_water" else [])
                        out.append(dict(part="inject-enum", kind="inject", fixed=di, ff=["AMBER", "PARSE", "CHARMM"][di],
                                        prefill=prefill, opts=opts, stage=stage, k=k, exc=exc))
    return out


def check_inject_enum(case):
    c = dict(case, desc=_fixed_descs()[case["fixed"]])
    return check_fail(c)


# ------------------------------------------------------------------ ligand whose PDB copy is incomplete
@st.composite
def ligand_case(draw):
    ch = draw(strat.chain(cid="A", nmin=2, nmax=4, variants=0, hyd="none", oxt=True))
    for k in ("extra", "altmod", "hetres", "shuffle"):
        ch.pop(k, None)
    ch["ter"] = True
    return dict(part="ligand", chain=ch, choices=draw(st.lists(st.integers(0, 10**6), min_size=24, max_size=60)),
                ff=draw(st.sampled_from(PROTEIN_FFS)), prefill=draw(st.booleans()), nwat=draw(st.integers(0, 2)),
                restart=draw(st.booleans()), opts=draw(st.sampled_from([[], [], ["--noopt"], ["--nodebump"], ["--whitespace"]])))  # fmt: skip


def check_ligand(case):
    """A complex whose ligand HETATM block lacks one atom of the MOL2 record: the charges written for the
    ligand are the MOL2-derived ones (C16), so without an atom of charge q (0.05 <= |q| <= 0.95 away
    from an integer) the total cannot be integral - the run must fail and leave the output path alone.
    The complete complex is the control and must succeed."""
    import io as _io

    from .. import molgen
    from pdb2pqr.ligand.mol2 import Mol2Molecule

    res = Result()
    m = molgen.random_mol(molgen.Chooser(case["choices"]), max_atoms=30)
    n = len(m.atoms)
    names = molgen.default_names(m)
    mol_text = molgen.to_mol2(m, names)
    try:
        ref = Mol2Molecule()
        ref.read(_io.StringIO(mol_text))
        ref.assign_parameters()
    except Exception:  # noqa: BLE001
        res.label("ligand-rejected")
        return res
    q = [round(ref.atoms[names[i]].charge, 4) for i in range(n)]
    frac = [abs(x - round(x)) for x in q]
    cand = [i for i in range(n) if 0.05 <= frac[i]]
    sentinel = "SENTINEL previous content\n"

    def run(skip):
        s = build.materialise(dict(chains=[case["chain"]]))
        k = 0
        for i in range(n):
            if i == skip:
                continue
            k += 1
            rec = dict(name=names[i], resn="LIG", chain="L", seq=500, xyz=np.array(molgen.coords(i)) + 25.0, rec="HETATM", group=("lig", i))
            if case["restart"]:
                rec["serial"] = k
            s.add(**rec)
        for w in range(case["nwat"]):
            s.add(name="O", resn="HOH", chain="W", seq=600 + w, xyz=np.array([40.0 + 4 * w, 10.0, 10.0]), rec="HETATM", group=("water", "W", 600 + w))
        return pipeline.run(s.text(), [f"--ff={case['ff']}", "--ligand=@DIR@/lig.mol2", *case["opts"]], extra_files={"lig.mol2": mol_text},
                            prefill=sentinel if case["prefill"] else None)  # fmt: skip

    r0 = run(None)
    res.label(f"ff={case['ff']}", "prefilled" if case["prefill"] else "no-output-file", "serials-restart" if case["restart"] else "serials-running")
    if not r0.ok:
        res.bad("C12:ligand:complete-complex-fails", f"{case['ff']}: complete peptide + ligand complex fails: {r0.exc_text[:140]}")
        return res
    if not cand:
        res.label("no-fractional-atom")
        return res
    i = max(cand, key=lambda j: min(frac[j], 1 - frac[j]))
    r1 = run(i)
    res.nontrivial = True
    if r1.ok:
        res.bad("C12:ligand:non-integral-accepted", f"{case['ff']}: ligand copy without its atom {names[i]} ({m.atoms[i]['type']}, charge {q[i]:+.4f}) "
                f"cannot have an integral total charge, yet the run succeeded and wrote a PQR file")  # fmt: skip
    elif case["prefill"] and (not r1.out_exists or r1.pqr_text != sentinel):
        res.bad("C12:ligand:output-touched", "failed run changed the file at the output path")
    elif not case["prefill"] and r1.out_exists:
        res.bad("C12:ligand:output-left", "failed run left a file at the output path")
    return res


def parts(tier):
    return [
        Part("success", check_success, strategy=success_case(), budget=dict(quick=480, thorough=10000)),
        Part("fail", check_fail, strategy=fail_case(), budget=dict(quick=320, thorough=8000)),
        Part("ligand", check_ligand, strategy=ligand_case(), budget=dict(quick=96, thorough=2000)),
        Part("inject-enum", check_inject_enum, cases=inject_cases, exhaustive=True),
        Part("malformed-enum", check_malformed_enum, cases=malformed_cases, exhaustive=True),
    ]


def selftest():
    topo.selftest()
