"""C02 - every residue carries the formal charge of its protonation and terminal state."""

from pathlib import Path

import numpy as np
from hypothesis import strategies as st

from .. import build, colfmt, e2e, geom, pipeline, strat, topo
from ..core import Part, Result

ID = "C02"
RULE = (
    "protein: generated 1-3 chain structures over all 20 residues + 12 named variants at "
    "N-terminal / internal / C-terminal / single-residue positions x 6 force fields, odd numbering, "
    "repeated chain ids with a hidden chain end (OXT in mid-chain, no TER), missing TER records, "
    "--neutraln/--neutralc (PARSE), waters.  Oracle: for every residue without unassigned atoms "
    "residue.charge and the sum of its printed charges == formal charge from explicit chemistry "
    "rules (side chain + N-terminus + C-terminus), state name == prefix+core as constructed, waters "
    "0, total == integer sum (1e-3 e); exactly one N- and one C-terminal state per constructed chain "
    "end.  na: DNA/RNA strands (1-2 strands, 2-6 nt, with/without 5' phosphate, O1P/OP1 naming, "
    "A/RA/DA residue names): strand charge == -(phosphates after 5' removal), no unassigned atoms.  "
    "cyclic: the repo's head-to-tail cyclic peptide under rigid motion, renumbering, cyclic rotation "
    "of the residue order and an added linear chain: no terminal state in the cyclic chain.  "
    "Non-trivial = terminal residue of a charged/variant type, > 1 chain, hidden chain end, strand "
    "or cyclic chain."
    ' cif-table: EXHAUSTIVE mmCIF layouts with multi-character author chain ids sharing their first character (2-3 chains x with/without OXT x 3 force fields).'
    ' table: EXHAUSTIVE 32 input names x N/mid/C position x 6 force fields (PARSE also with '
    '--neutraln/--neutralc).  blank-table: EXHAUSTIVE layouts of two chains without chain ids (5 id '
    'layouts x last chain closed by TER or END only x first chain with/without OXT x 3 force '
    'fields).  cyclic: also with one ring member that has no definition.'
    ' big: protein chains and strands in ONE file, 4-9 / 27-30 chains, 53-56 OXT-terminated copies under one chain id, one chain of 10-24 residues, a peptide in 60-200 waters - per-residue and per-strand rules on the same run.  Waters carry the id of a protein chain one time in five (a chain may then START with a water).'
)
ASSUMPTIONS = [
    "formal charges: ARG/LYS/HIP +1, ASP/GLU/CYM/TYM -1, charged termini +1/-1 (vf/topo.py)",
    "N-terminal PRO stays charged under --neutraln (pdb2pqr design)",
    "single-residue chains are named by the N-terminal state only and are not fully parameterised",
]

CHARGED = {"ARG", "LYS", "ASP", "GLU", "HIP", "HSP", "CYM", "TYM", "ASH", "GLH", "LYN", "AR0",
           "HID", "HIE", "HSD", "HSE", "HIS", "CYX"}  # fmt: skip


@st.composite
def protein_case(draw):
    ff = draw(st.sampled_from(strat.FFS))
    desc = draw(e2e.structure(max_chains=3, nmax=5, contact=False, waters=True, variants=0.3, cif=True, icodes=True))
    hidden = False
    if len(desc["chains"]) > 1 and draw(st.integers(0, 2)) == 0:
        # hidden chain end(s): same chain id, no TER, OXT present on the part before
        hidden = e2e.add_hidden_ends(draw, desc)
    opts = []
    if ff == "PARSE":
        if draw(st.integers(0, 2)) == 0:
            opts.append("--neutraln")
        if draw(st.integers(0, 2)) == 0:
            opts.append("--neutralc")
    for o in ("--noopt", "--nodebump", "--keep-chain"):
        if draw(st.integers(0, 4)) == 0:
            opts.append(o)
    blank = None
    if desc.get("cif"):
        res_label = "cif"
    if not hidden and not desc.get("cif") and len(desc["chains"]) == 2 and draw(st.integers(0, 3)) == 0:
        # blank chain ids next to explicit ones: pdb2pqr names a blank chain after its TER count
        blank = draw(st.sampled_from([[" ", "A"], [" ", "B"], ["A", " "], ["B", " "], [" ", " "]]))
        desc.pop("order", None)  # (the known-finding layouts are defined by the file order of the chains)
        for ch, cid in zip(desc["chains"], blank):
            ch["id"] = cid
            ch["ter"] = True
        # the LAST chain of a file is often closed only by END (no TER of its own)
        desc["chains"][-1]["ter"] = draw(st.booleans())
        desc["waters"] = []
    return dict(part="protein", desc=desc, ff=ff, opts=opts, hidden=hidden, blank=blank)


def _printed_sums(A):
    sums = {}
    if A.pairs is None:
        return None
    for ln, a in A.pairs:
        sums[id(a.residue)] = sums.get(id(a.residue), 0.0) + ln["q"]
    return sums


def check_protein(case):
    res = Result()
    desc, ff, opts = case["desc"], case["ff"], case["opts"]
    s, r = e2e.run_case(desc, ff, opts)
    res.label(f"ff={ff}", "hidden-end" if case.get("hidden") else "plain-ends",
              *(["mmcif", "multi-char-chain-ids" if desc["cif"].get("multi") else "single-char-chain-ids"] if desc.get("cif") else []),
              *[o for o in opts if o.startswith("--neutral")])  # fmt: skip
    if not r.ok:
        res.label("run-failed")
        return res
    A = e2e.analyse(desc, ff, opts, s, r)
    sums = _printed_sums(A)
    interesting = len(desc["chains"]) > 1 or case.get("hidden")
    # known finding D18: a blank chain id is auto-named by its TER count ('A' for the first chain)
    # without looking at ids already in use: [' ', 'A'] and ['B', ' '] collapse into one chain
    collide = case.get("blank") in ([" ", "A"], ["B", " "])
    if case.get("blank"):
        res.label("blank-chain-id", "blank-collides" if collide else "blank-no-collision")
    total_exp = 0
    all_full = True
    for g in A.inp:
        entry = A.by_group.get(g)
        if entry is None:
            all_full = False
            continue
        obj = entry["obj"]
        full = not any(id(a) in A.missing_ids for a in entry["atoms"].values())
        if g[0] == "water":
            if full and abs(obj.charge) > 1e-3:
                res.bad("C02:water-charge", f"water carries {obj.charge:+.4f} e in {ff}")
            continue
        if g[0] == "na":
            all_full = False  # (strand totals are checked by check_na on the same descriptor)
            continue
        ci, i = g[1], g[2]
        seq = desc["chains"][ci]["seq"]
        rn = seq[i]
        exp = A.expected[(ci, i)]
        state, core = e2e.final_state_name(entry, exp)
        charge = exp["charge"] + (1 if (exp["his_any"] and core == "HIP") else 0)
        pos = "single" if len(seq) == 1 else ("N-term" if i == 0 else ("C-term" if i == len(seq) - 1 else "mid"))
        if pos != "mid" and (rn in CHARGED or topo.BASE.get(rn, rn) in CHARGED):
            interesting = True
        # terminal state applied exactly where a chain end was constructed
        ffname = getattr(obj, "ffname", None)
        if ffname != state and collide:
            res.bad("C02:blank-chain-id-collision", f"chains {case['blank']}: {rn} at {pos} of chain {ci} has state {ffname!r}, "
                    f"constructed {state!r}")  # fmt: skip
            all_full = False
            continue
        if ffname != state:
            kind = "terminus" if (ffname or "").lstrip("NEUTRAL-")[-3:] == state[-3:] else "state"
            res.bad(f"C02:{kind}-name", f"{rn} at {pos} of chain {ci} (ids {[c['id'] for c in desc['chains']]}): "
                    f"state {ffname!r}, constructed {state!r} ({ff} {' '.join(opts)})")  # fmt: skip
            all_full = False
            continue
        if not full or len(seq) == 1:
            all_full = False
            continue
        total_exp += charge
        if abs(obj.charge - charge) > 1e-3:
            res.bad("C02:residue-charge", f"{ff} {state} ({rn}, {pos}): net charge {obj.charge:+.4f}, formal {charge:+d}")
        elif sums is not None:
            tol = 1e-3 + 5e-5 * len(entry["atoms"])
            if abs(sums.get(id(obj), 0.0) - charge) > tol:
                res.bad("C02:printed-charge", f"{ff} {state}: printed charges sum to {sums.get(id(obj), 0.0):+.4f}, formal {charge:+d}")
    if all_full:
        tot = sum(e["obj"].charge for e in A.residues)
        if abs(tot - total_exp) > 1e-3:
            res.bad("C02:total-charge", f"total {tot:+.4f} != integer sum {total_exp:+d}")
    res.nontrivial = bool(interesting)
    return res


# ------------------------------------------------------------------ exhaustive state table
def table_cases():
    """Every amino-acid input name (20 + protonation variants) x chain position x force field
    (PARSE also with --neutraln / --neutralc): the residue's net charge must be the formal charge of
    its final state.  Finite, enumerated completely."""
    from . import c06

    out = []
    k = 0
    for ff in strat.FFS:
        optsets = [[]] + ([["--neutraln"], ["--neutralc"], ["--neutraln", "--neutralc"]] if ff == "PARSE" else [])
        for opts in optsets:
            for name in topo.AA20 + topo.VARIANTS:
                for pos in ("N", "M", "C"):
                    k += 1
                    ch = c06._context(k % 3, name, pos)
                    out.append(dict(part="table", desc=dict(chains=[ch], waters=[]), ff=ff, opts=list(opts)))
    return out


def blank_cases():
    """Files whose chains have no chain id (or only some of them have one): every layout of two chains x
    last chain closed by TER or only by END x first chain with / without OXT x three force fields."""
    from . import c06

    out = []
    k = 0
    for blank in ([" ", " "], [" ", "A"], [" ", "B"], ["A", " "], ["B", " "]):
        for ter_last in (True, False):
            for oxt0 in (True, False):
                for ff in ("AMBER", "PARSE", "CHARMM"):
                    k += 1
                    a = dict(c06._context(k % 3, "LYS", "C"), id=blank[0], oxt=oxt0, ter=True, start=1)
                    b = dict(c06._context((k + 1) % 3, "ASP", "N"), id=blank[1], oxt=True, ter=ter_last, start=31, shift=[45.0, 3.0, -2.0])
                    out.append(dict(part="blank-table", desc=dict(chains=[a, b], waters=[]), ff=ff, opts=[], hidden=False, blank=blank))
    return out


def cif_cases():
    """mmCIF files whose author chain ids have several characters and share the first one (AA, AB, AC): two
    or three chains x first chains with / without OXT x three force fields x single-character control."""
    from . import c06

    out = []
    k = 0
    for nch in (2, 3):
        for oxt in (True, False):
            for multi in (True, False):
                for ff in ("AMBER", "PARSE", "CHARMM"):
                    k += 1
                    chains = []
                    for ci in range(nch):
                        ch = dict(c06._context((k + ci) % 3, ["LYS", "ASP", "GLU"][ci], "C" if ci % 2 == 0 else "N"), id="ABC"[ci],
                                  oxt=oxt if ci < nch - 1 else True, ter=True, start=1 + 30 * ci)
                        if ci:
                            ch["shift"] = [45.0 * ci, 3.0, -2.0]
                        chains.append(ch)
                    out.append(dict(part="cif-table", desc=dict(chains=chains, waters=[], cif=dict(multi=multi, bigseq=False)), ff=ff, opts=[],
                                    hidden=False, blank=None))
    return out


# ------------------------------------------------------------------ nucleic acids
@st.composite
def na_case(draw):
    strands = draw(e2e.strands())
    any_dna = any(x["dna"] for x in strands)
    ffs = ["AMBER", "CHARMM", "TYL06"] + ([] if any_dna else ["PARSE"])
    return dict(part="na", desc=dict(chains=[], na=strands), ff=draw(st.sampled_from(ffs)),
                opts=draw(st.sampled_from([[], [], ["--noopt"], ["--nodebump"], ["--drop-water"]])))  # fmt: skip


def check_na(case):
    res = Result()
    desc, ff, opts = case["desc"], case["ff"], case["opts"]
    s, r = e2e.run_case(desc, ff, opts)
    res.label(f"ff={ff}", *("dna" if x["dna"] else "rna" for x in desc["na"]),
              *("p5" if x["p5"] else "no-p5" for x in desc["na"]),
              *("OP1" if x["newnames"] else "O1P" for x in desc["na"]))  # fmt: skip
    if not r.ok:
        res.label("run-failed")
        return res
    from pdb2pqr import na as _na

    na_missing = [a for a in (r.missing or []) if isinstance(a.residue, _na.Nucleic)]
    if na_missing:
        names = sorted({f"{a.residue.name}:{a.name}" for a in na_missing})
        res.bad("C02:na:unassigned", f"{ff}: strand atoms without parameters {names[:6]}")
        return res
    A = e2e.analyse(desc, ff, opts, s, r)
    for meta in s.strands:
        tot = 0.0
        for i in range(meta["n"]):
            entry = A.by_group.get(("na", meta["index"], i))
            if entry is None:
                res.bad("C02:na:residue-lost", f"nucleotide {i} of strand {meta['id']} not in the model")
                break
            tot += entry["obj"].charge
        else:
            if abs(tot + meta["phosphates"]) > 2e-3:
                res.bad("C02:na:strand-charge", f"{ff} {'DNA' if meta['dna'] else 'RNA'} {''.join(meta['seq'])} "
                        f"(5' phosphate in input: {meta['p5']}): charge {tot:+.4f}, expected {-meta['phosphates']:+d}")  # fmt: skip
    res.nontrivial = True
    return res


# ------------------------------------------------------------------ beyond the usual size / content envelope
@st.composite
def big_case(draw):
    desc = draw(e2e.big_structure(icodes=True))
    ff = e2e.big_ff(draw, desc)
    opts = []
    if ff == "PARSE":
        for o in ("--neutraln", "--neutralc"):
            if draw(st.integers(0, 2)) == 0:
                opts.append(o)
    for o in ("--noopt", "--nodebump", "--keep-chain"):
        if draw(st.integers(0, 4)) == 0:
            opts.append(o)
    return dict(part="big", desc=desc, ff=ff, opts=opts, hidden=False, blank=None)


def check_big(case):
    """Protein chains and strands in one file, 4-30 chains, one long chain: the per-residue rule of
    `protein` and the per-strand rule of `na` on the same run."""
    res = check_protein(case)
    res.label(f"big={case['desc'].get('big')}", f"chains={len(case['desc']['chains'])}")
    if case["desc"].get("na"):
        r2 = check_na(case)
        res.violations += r2.violations
    res.nontrivial = True
    return res


# ------------------------------------------------------------------ cyclic peptide
def _cyclic_records():
    path = Path(__file__).resolve().parent.parent / "data" / "5vav_cyclic_peptide.pdb"
    recs = []
    for ln in path.read_text().splitlines():
        if ln.startswith("ATOM"):
            recs.append(colfmt.pdb_atom(ln))
        elif ln.startswith("ENDMDL"):
            break
    return recs


@st.composite
def cyclic_case(draw):
    return dict(part="cyclic", rot=draw(st.integers(0, 13)), q=draw(strat.quat()),
                shift=[draw(strat.fl(-50.0, 50.0)) for _ in range(3)], start=draw(st.sampled_from([1, 1, -4, 100])),
                hyd=draw(st.booleans()), linear=draw(st.one_of(st.none(), strat.chain(cid="L", nmin=2, nmax=4).map(lambda c: {k: v for k, v in c.items() if k != "extra"}))),
                ff=draw(st.sampled_from(["AMBER", "CHARMM", "PARSE", "TYL06", "SWANSON"])), cid=draw(st.sampled_from(["A", "C", "z"])),
                nonstd=draw(st.sampled_from([None, None, "first", "last", "middle"])))  # fmt: skip  (a residue without definition, e.g. SAR / DAL)


def check_cyclic(case):
    res = Result()
    recs = _cyclic_records()
    keys = []
    for a in recs:
        k = (a["chain"], a["seq"], a["icode"])
        if not keys or keys[-1] != k:
            keys.append(k)
    n = len(keys)
    order = keys[case["rot"] % n :] + keys[: case["rot"] % n]
    R = geom.quat_to_rot(case["q"])
    cen = np.mean([[a["x"], a["y"], a["z"]] for a in recs], axis=0)
    lines = []
    serial = 1
    resnames = []
    jn = {None: -1, "first": 0, "last": n - 1, "middle": n // 2}[case.get("nonstd")]
    for j, k in enumerate(order):
        for a in recs:
            if (a["chain"], a["seq"], a["icode"]) != k:
                continue
            if not case["hyd"] and not topo.heavy(a["name"]):
                continue
            xyz = R @ (np.array([a["x"], a["y"], a["z"]]) - cen) + np.array(case["shift"])
            if j == jn:
                # a ring member pdb2pqr has no definition for: backbone only, HETATM records
                if a["name"] in ("N", "CA", "C", "O"):
                    lines.append(build.fmt_atom(serial, a["name"], "SAR", case["cid"], case["start"] + j, " ", xyz, rec="HETATM"))
                    serial += 1
                continue
            lines.append(build.fmt_atom(serial, a["name"], a["resn"], case["cid"], case["start"] + j, " ", xyz))
            serial += 1
        resnames.append(next(a["resn"] for a in recs if (a["chain"], a["seq"], a["icode"]) == k))
    lines.append("TER")
    nlin = 0
    if case["linear"] is not None:
        ch = dict(case["linear"], shift=[80.0, 80.0, 80.0], start=500)
        ls = build.materialise(dict(chains=[ch]))
        lines += ls.lines(end=False)
        nlin = len(ch["seq"])
    lines.append("END")
    r = pipeline.run("\n".join(lines) + "\n", [f"--ff={case['ff']}", "--keep-chain"])
    res.label(f"ff={case['ff']}", f"rot={case['rot'] % n != 0}", "with-linear" if nlin else "alone", f"undefined-residue={case.get('nonstd')}")
    if not r.ok:
        res.bad("C02:cyclic:run-failed", f"cyclic peptide run failed: {r.exc_text[:120]}")
        return res
    cyc = [x for x in r.bio.residues if x.res_seq < 400]
    if len(cyc) != n:
        res.bad("C02:cyclic:residue-count", f"{len(cyc)} residues of {n}")
    side = {"ARG": 1, "LYS": 1, "ASP": -1, "GLU": -1}
    for x in cyc:
        ffname = getattr(x, "ffname", "")
        nterm, cterm = getattr(x, "is_n_term", 0), getattr(x, "is_c_term", 0)
        if nterm or cterm or ffname.startswith(("NEUTRAL", "N", "C")) and ffname not in ("CYS", "CYX", "CYM", "ASN"):
            if ffname[1:] in topo.RES or ffname[1:] in topo.BASE or nterm or cterm:
                res.bad("C02:cyclic:terminus-applied", f"residue {x} of the cyclic chain got terminal state {ffname!r} "
                        f"(rotation {case['rot'] % n})")  # fmt: skip
                break
        names = {a.name for a in x.atoms}
        if names & {"OXT", "H2", "H3"}:
            res.bad("C02:cyclic:cap-atoms", f"residue {x} of the cyclic chain carries cap atoms {sorted(names & {'OXT', 'H2', 'H3'})}")
            break
    miss = {id(a) for a in (r.missing or [])}
    if not any(id(a) in miss for x in cyc for a in x.atoms):
        tot = sum(x.charge for x in cyc)
        exp = sum(side.get(x.name, 0) for x in cyc) + sum(1 for x in cyc if getattr(x, "ffname", "") == "HIP")
        if jn >= 0:
            exp = None  # (never reached: the undefined residue's atoms are unassigned)
        if exp is not None and abs(tot - exp) > 1e-3:
            res.bad("C02:cyclic:charge", f"cyclic chain charge {tot:+.4f}, side chains sum to {exp:+d}")
    res.nontrivial = True
    return res


def parts(tier):
    return [
        Part("protein", check_protein, strategy=protein_case(), budget=dict(quick=480, thorough=10000)),
        Part("table", check_protein, cases=table_cases, exhaustive=True),
        Part("blank-table", check_protein, cases=blank_cases, exhaustive=True),
        Part("cif-table", check_protein, cases=cif_cases, exhaustive=True),
        Part("na", check_na, strategy=na_case(), budget=dict(quick=160, thorough=3000)),
        Part("big", check_big, strategy=big_case(), budget=dict(quick=128, thorough=2000)),
        Part("cyclic", check_cyclic, strategy=cyclic_case(), budget=dict(quick=64, thorough=1200)),
    ]


def selftest():
    topo.selftest()
    assert len(_cyclic_records()) > 100
