"""C09 - formatting and naming options never change the computed model."""

import numpy as np
from hypothesis import strategies as st

from .. import build, colfmt, e2e, pipeline, strat, topo
from ..core import Part, Result

ID = "C09"
RULE = (
    "Generated structures (1-3 chains, contact placement, waters, every residue type) x force field "
    "x a random non-empty subset of {--whitespace, --keep-chain, --include-header, --pdb-output, "
    "--apbs-input, --ffout=<scheme>} compared with the base run on the same input: same number and "
    "order of atom lines, coordinate/charge/radius substrings byte-identical.  --drop-water run "
    "byte-identical to a run on the input with its water records deleted.  --neutraln/--neutralc "
    "(PARSE): lines of non-terminal residues byte-identical and total charge shifted by -1 per "
    "N-terminus / +1 per C-terminus actually neutralised (chains of >= 2 residues, terminal residue "
    "not PRO).  Non-trivial = pair differing in >= 1 option on a structure with >= 1 optimisable "
    "group or water."
)
ASSUMPTIONS = [
    "single-residue chains and terminal prolines are excluded from the neutral-terminus charge relation",
    "PARSE NEUTRAL-CPRO parameter gap is C12's known finding (run aborts)",
]

FORMAT_OPTS = ["--whitespace", "--keep-chain", "--include-header", "--pdb-output=@DIR@/o.pdb",
               "--apbs-input=@DIR@/o.in"]  # fmt: skip


@st.composite
def case(draw):
    kind = draw(st.sampled_from(["format", "format", "format", "dropwater", "neutral"]))
    ff = "PARSE" if kind == "neutral" else draw(st.sampled_from(strat.FFS))
    desc = draw(e2e.structure(max_chains=3, nmax=5, contact=True, waters=True, variants=0.15,
                              nmin=2 if kind == "neutral" else 1))  # fmt: skip
    if kind == "neutral" and draw(st.integers(0, 2)) == 0:
        e2e.add_hidden_ends(draw, desc)  # the inner chain ends must follow the same flags
    if kind == "dropwater" and not desc.get("waters"):
        desc["waters"] = [dict(draw(strat.water()), chain="W", seq=300)]
    if kind == "dropwater" and draw(st.integers(0, 2)) == 0:
        # files without chain ids: chains are separated by TER records only, and a chain's waters are
        # listed before its TER
        for ch in desc["chains"]:
            ch["id"] = " "
            ch["ter"] = True
            ch.pop("altmod", None)
        for k, ch in enumerate(desc["chains"]):
            ch["start"] = 1 + 20 * k
            ch.pop("nums", None)
            ch.pop("icodes", None)
        if draw(st.booleans()):
            desc["chains"][0]["oxt"] = False
        for w in desc["waters"]:
            w["chain"] = " "
        desc["order"] = "waters-before-ter"
        desc.pop("cif", None)
    elif kind == "dropwater" and draw(st.integers(0, 1)) == 0:
        # water numbering that collides with the solute's (files without chain ids whose waters are
        # numbered from 1, merged files): a water is identified by its residue NAME, not by its number
        c0 = desc["chains"][0]
        for k, w in enumerate(desc["waters"]):
            w["chain"] = c0["id"]
            w["seq"] = c0["start"] + (k % len(c0["seq"]))
    base = draw(st.sampled_from([[], [], ["--noopt"], ["--nodebump"]]))
    extra = []
    if kind == "format":
        extra = [o for o in FORMAT_OPTS if draw(st.integers(0, 2)) == 0]
        if draw(st.integers(0, 2)) == 0:
            extra.append("--ffout=" + draw(st.sampled_from(strat.FFS)))
        if not extra:
            extra = [draw(st.sampled_from(FORMAT_OPTS))]
    elif kind == "neutral":
        extra = draw(st.sampled_from([["--neutraln"], ["--neutralc"], ["--neutraln", "--neutralc"]]))
    tit = None
    if kind == "format" and draw(st.integers(0, 2)) == 0:
        # titration states assigned from (harness-supplied) pKa values in both runs
        tit = dict(ph=draw(st.sampled_from([2.0, 7.0, 12.5, 13.5])),
                   pka=[[ci, i, draw(st.integers(0, 1400)) / 100.0] for ci, ch in enumerate(desc["chains"])
                        for i, rn in enumerate(ch["seq"]) if rn in ("ASP", "GLU", "HIS", "CYS", "TYR", "LYS", "ARG")])  # fmt: skip
    cif = None
    if kind == "format" and draw(st.integers(0, 3)) == 0:
        # the same relation on mmCIF input (multi-character chain ids in half of these)
        cif = dict(multi=draw(st.integers(0, 2)) > 0, bigseq=draw(st.booleans()))
        for ch in desc["chains"]:
            ch.pop("altmod", None)
    lig = None
    if kind == "format" and cif is None and draw(st.integers(0, 3)) == 0:
        # a --ligand complex: the ligand's records carry the id of one of the protein chains (or their own)
        lig = dict(choices=draw(st.lists(st.integers(0, 10**6), min_size=24, max_size=40)),
                   chain=draw(st.sampled_from(["L", "first", "first", "last"])), seq=draw(st.sampled_from([500, 900])))
    return dict(part="opts", kind=kind, desc=desc, ff=ff, base=base, extra=extra, tit=tit, cif=cif, lig=lig)


def _fields(ln):
    return tuple(ln[k].strip() for k in ("xs", "ys", "zs", "qs", "rs"))


def check(case):
    res = Result()
    desc, ff, base, extra, kind = case["desc"], case["ff"], case["base"], case["extra"], case["kind"]
    e2e.normalise(desc, list(base) + list(extra))
    s = build.materialise(desc)
    args0 = [f"--ff={ff}", *base]
    if case.get("tit"):
        from . import c06

        c06.install_fake_propka()
        c06.PKA.clear()
        c06.TERM_ROWS.clear()
        for ci, i, v in case["tit"]["pka"]:
            ch = desc["chains"][ci]
            c06.PKA[(ch["id"], ch["start"] + i)] = v
        args0 += ["--titration-state-method=propka", f"--with-ph={case['tit']['ph']}"]
        res.label("titration")
    xfiles = {}
    if case.get("lig"):
        from .. import molgen

        m = molgen.random_mol(molgen.Chooser(case["lig"]["choices"]), max_atoms=25)
        names = molgen.default_names(m)
        cid = {"L": "L", "first": desc["chains"][0]["id"], "last": desc["chains"][-1]["id"]}[case["lig"]["chain"]]
        for i in range(len(m.atoms)):
            s.add(name=names[i], resn="LIG", chain=cid, seq=case["lig"]["seq"], xyz=np.array(molgen.coords(i)) + 70.0, rec="HETATM", group=("lig", i))
        xfiles = {"lig.mol2": molgen.to_mol2(m, names)}
        args0.append("--ligand=@DIR@/lig.mol2")
        res.label("ligand", f"ligand-chain={case['lig']['chain']}")
    in_text, ext = s.text(), "pdb"
    if case.get("cif"):
        in_text, cmap = e2e.structure_to_cif(s, case["cif"])
        ext = "cif"
        res.label("mmcif-input", "multi-char-chain-ids" if case["cif"]["multi"] else "one-char-chain-ids")
        if case.get("tit"):
            for ci, i, v in case["tit"]["pka"]:
                ch = desc["chains"][ci]
                c06.PKA[(cmap[ch["id"]], ch["start"] + i)] = v
    r0 = pipeline.run(in_text, args0, ext=ext, extra_files=xfiles)
    res.label(f"kind={kind}", f"ff={ff}", *[o.split("=")[0] for o in extra])
    if not r0.ok:
        res.label("base-run-failed")
        return res
    optimisable = bool(desc.get("waters")) or any(
        topo.BASE.get(rn, rn) in ("HIS", "ASN", "GLN", "SER", "THR", "TYR", "CYS", "LYS", "ASP", "GLU", "ARG")
        for ch in desc["chains"] for rn in ch["seq"]
    )  # fmt: skip
    res.nontrivial = optimisable
    lines0 = colfmt.read_pqr_text(r0.pqr_text, False)
    if not lines0:
        res.label("excluded-empty-output")  # nothing parameterised: C12/C01 territory
        res.nontrivial = False
        return res
    if kind == "format":
        r1 = pipeline.run(in_text, args0 + extra, ext=ext, extra_files=xfiles)
        if not r1.ok:
            res.bad("C09:option-breaks-run", f"adding {extra} makes the run fail: {r1.exc_text[:100]}")
            return res
        try:
            lines1 = colfmt.read_pqr_text(r1.pqr_text, "--whitespace" in extra)
        except Exception as e:  # noqa: BLE001
            res.bad("C09:unreadable", f"output with {extra} unreadable: {e!r}")
            return res
        if len(lines0) != len(lines1):
            res.bad("C09:line-count", f"{len(lines0)} atom lines in the base run, {len(lines1)} with {extra}")
            return res
        for a, b in zip(lines0, lines1):
            if _fields(a) != _fields(b):
                which = "coordinates" if _fields(a)[:3] != _fields(b)[:3] else "parameters"
                res.bad(f"C09:{which}-changed", f"{a['name']} {a['resn']} {a['seq']}: {_fields(a)} -> {_fields(b)} with {extra}")
                break
            if (a["seq"], a["rec"]) != (b["seq"], b["rec"]):
                res.bad("C09:order-changed", f"line for {a['name']} {a['seq']} became {b['name']} {b['seq']} with {extra}")
                break
            if not any(o.startswith("--ffout") for o in extra) and (a["name"], a["resn"]) != (b["name"], b["resn"]):
                res.bad("C09:names-changed", f"{a['name']} {a['resn']} -> {b['name']} {b['resn']} without --ffout")
                break
    elif kind == "dropwater":
        r1 = pipeline.run(s.text(), args0 + ["--drop-water"])
        dry = build.Structure()
        dry.records = [x for x in s.records if x["group"][0] != "water"]
        dry.ters = {i for i, x in enumerate(dry.records) if s.records.index(x) in s.ters}
        r2 = pipeline.run(dry.text(), args0)
        if r1.ok != r2.ok:
            res.bad("C09:drop-water:success-differs", f"--drop-water ok={r1.ok}, waters deleted ok={r2.ok}")
        elif r1.ok and r1.pqr_text != r2.pqr_text:
            res.bad("C09:drop-water:output-differs", "--drop-water output differs from running on the input without waters")
        if r1.ok and any(ln["resn"] in ("HOH", "WAT") for ln in colfmt.read_pqr_text(r1.pqr_text, False)):
            res.bad("C09:drop-water:water-kept", "--drop-water output still contains water")
    else:
        r1 = pipeline.run(s.text(), args0 + extra)
        nn = nc = 0
        skip = False
        term_keys = set()
        for ch in desc["chains"]:
            seq = ch["seq"]
            nums = [ch["start"] + i for i in range(len(seq))]
            if len(seq) < 2:
                skip = True
                continue
            term_keys |= {nums[0], nums[-1]}
            if "--neutraln" in extra:
                if topo.BASE.get(seq[0], seq[0]) != "PRO":
                    nn += 1
            if "--neutralc" in extra:
                if topo.BASE.get(seq[-1], seq[-1]) == "PRO":
                    skip = True
                nc += 1
        if skip:
            res.label("excluded-single-or-cpro")
            res.nontrivial = False
            return res
        if not r1.ok:
            res.bad("C09:neutral:run-failed", f"{extra} makes the run fail: {r1.exc_text[:100]}")
            return res
        lines1 = colfmt.read_pqr_text(r1.pqr_text, False)
        # numbering may repeat across chains: compare non-terminal residues by (chain-less) order
        # a histidine named HIS gets its tautomer (HID / HIE) from the optimiser, which legitimately reacts
        # to the different terminal hydrogens next to it: such residues are compared by presence only
        his_any = {ch["start"] + i for ch in desc["chains"] for i, rn in enumerate(ch["seq"]) if rn == "HIS"}
        body0 = [ln for ln in lines0 if ln["seq"] not in term_keys and ln["seq"] not in his_any]
        body1 = [ln for ln in lines1 if ln["seq"] not in term_keys and ln["seq"] not in his_any]
        # state (names, charge, radius) of non-terminal residues is unchanged; hydrogen positions
        # of neighbours may legitimately react to the different terminal hydrogens
        # (as a multiset: a flip or a carboxyl name exchange re-orders atoms inside a residue)
        sig0 = sorted((a["resn"], a["seq"], a["name"], a["qs"].strip(), a["rs"].strip()) for a in body0)
        sig1 = sorted((b["resn"], b["seq"], b["name"], b["qs"].strip(), b["rs"].strip()) for b in body1)
        if sig0 != sig1:
            diff = next((x, y) for x, y in zip(sig0 + [None], sig1 + [None]) if x != y)
            res.bad("C09:neutral:non-terminal-changed", f"{extra} changed a non-terminal residue: {diff[0]} -> {diff[1]}")
        q0 = sum(ln["q"] for ln in lines0)
        q1 = sum(ln["q"] for ln in lines1)
        if abs((q1 - q0) - (nc - nn)) > 2e-3 + 1e-4 * len(lines0):
            res.bad("C09:neutral:charge-shift", f"{extra}: total charge {q0:+.3f} -> {q1:+.3f}, expected shift {nc - nn:+d} "
                    f"({nn} N-termini, {nc} C-termini neutralised)")  # fmt: skip
    return res


def parts(tier):
    return [Part("opts", check, strategy=case(), budget=dict(quick=320, thorough=6000))]


def selftest():
    colfmt.selftest()
