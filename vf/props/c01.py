"""C01 - assigned charges and radii are exactly the selected force field's parameters."""

import os
import shutil
from functools import lru_cache

from hypothesis import strategies as st

from .. import ffmodel, pipeline, strat, topo
from ..core import Part, Result, scratch_dir

ID = "C01"
RULE = (
    "table: EXHAUSTIVE enumeration of 6 built-in force fields x every residue-state name "
    "(chemistry-derived universe U pdb2pqr's definition keys U native DAT names) x every atom name "
    "occurring anywhere in the topology or the DAT file; Forcefield.get_params / get_names compared "
    "in both directions with the independent DAT+.names model (one case = one (ff, residue) row; "
    "non-trivial = row with >= 1 parameterised atom).  userff: generated .DAT/.names pairs "
    "(renamed residues/atoms, regex sections, $group, cumulative sections, aliases, type column, "
    "comments) with construction-known truth, loaded through Forcefield(userff, usernames); "
    "non-trivial = pair in which >= 1 regex/$group/alias/cumulative section fires.  e2e: generated "
    "structures x 6 force fields (+ user pairs through --userff/--usernames): every written atom's "
    "charge/radius == model value for the residue's final state; atoms without entry omitted and "
    "reported; non-trivial = written atoms cover a terminal or non-default protonation state."
    " ligand: --ligand complexes (C16's generator, always with a foreign hetero group): "
    "protein/water atoms keep the force field's values, an atom known to neither force field nor "
    'MOL2 is never written.  table also checks the pinned residue/atom naming map (one direction).  '
    'e2e includes hidden chain ends and strands whose nucleotide states follow from the descriptor.'
    ' e2e also draws `big` structures (protein + strands in one file, 4-30 chains, 53-56 hidden chains, long chains, water box).  userff: every residue rule is spelled as one of five equivalent regular expressions (literal, group, top-level alternation, non-capturing alternation, character class).'
)
ASSUMPTIONS = [
    "the DAT/.names data files define the parameters (read independently of pdb2pqr)",
    "documented .names semantics: docs/source/formats/xml-names.rst",
    "printed precision 4 decimals",
]


# ------------------------------------------------------------------ table (exhaustive)
@lru_cache(maxsize=None)
def _code_ff(ff):
    from pdb2pqr import forcefield

    return forcefield.Forcefield(ff.lower(), pipeline.definition(), None)


@lru_cache(maxsize=None)
def _atom_universe(ff):
    names = set()
    for r in topo.RES.values():
        names |= set(r["atoms"]) | set(r["alts"])
    for p in topo.PATCH.values():
        names |= set(p["atoms"]) | set(p["alts"]) | set(p["remove"])
    dat = ffmodel.load_dat((topo.dat_dir() / f"{ff}.DAT").read_text(encoding="utf-8"))
    for atoms in dat.values():
        names |= set(atoms)
    for atoms in ffmodel.builtin(ff).values():
        names |= set(atoms)
    return sorted(names)


def table_cases():
    out = []
    for ff in ffmodel.FFS:
        dat = ffmodel.load_dat((topo.dat_dir() / f"{ff}.DAT").read_text(encoding="utf-8"))
        # rows: every chemically meaningful state name and every native DAT name (the
        # definition map also holds meaningless keys such as NEUTRAL-NWAT: not states)
        rows = sorted(set(ffmodel.universe()) | set(dat))
        for r in rows:
            out.append(dict(part="table", ff=ff, res=r))
    return out


def check_table(case):
    res = Result()
    ff, rn = case["ff"], case["res"]
    code = _code_ff(ff)
    model = ffmodel.builtin(ff).get(rn, {})
    hits = 0
    for a in _atom_universe(ff):
        got = code.get_params(rn, a)
        exp = model.get(a)
        if exp is None:
            if got != (None, None):
                res.bad("C01:table:invented", f"{ff} {rn} {a}: code gives {got}, the files define nothing")
            continue
        hits += 1
        if got == (None, None):
            res.bad("C01:table:missing", f"{ff} {rn} {a}: files define {exp[:2]} (native {exp[2]} {exp[3]}), code gives nothing")
        elif got != (exp[0], exp[1]):
            res.bad("C01:table:value", f"{ff} {rn} {a}: code {got} != files {exp[:2]} (native {exp[2]} {exp[3]})")
        else:
            names = code.get_names(rn, a)
            if names != (exp[2], exp[3]):
                res.bad("C01:table:native-names", f"{ff} {rn} {a}: code names {names} != {exp[2:]}")
    # pinned naming map (one direction: entries of the pinned map must still resolve to the same
    # native residue/atom; additional entries are allowed)
    pinned = ffmodel.golden_native()[ff].get(rn, {})
    for a, nat in pinned.items():
        names = code.get_names(rn, a)
        if tuple(nat) != tuple(names):
            res.bad("C01:table:naming-map", f"{ff} {rn} {a}: resolves to native {names}, the documented/pinned map gives {tuple(nat)}")
    if pinned:
        res.label("pinned-map")
    res.nontrivial = hits > 0
    res.label(f"ff={ff}", "defined" if hits else "undefined")
    return res


# ------------------------------------------------------------------ user force-field pairs
CANON_RES = ["ALA", "GLY", "SER", "ASP", "HIP", "HID", "HIE", "CYX", "LYS", "WAT", "NALA", "CALA",
             "NSER", "CGLY", "CASP", "NEUTRAL-NALA", "RA", "DT5", "ASH", "NLYS"]  # fmt: skip


def _res_atoms(res):
    """Canonical atom names of a canonical residue-state name (from O2)."""
    name = res
    nterm = cterm = neutraln = neutralc = False
    if name.startswith("NEUTRAL-N"):
        name, nterm, neutraln = name[9:], True, True
    elif name.startswith("NEUTRAL-C"):
        name, cterm, neutralc = name[9:], True, True
    elif len(name) == 4 and name[0] == "N" and name[1:] in topo.RES or name[1:] in topo.BASE and name[0] == "N":
        name, nterm = name[1:], True
    elif len(name) == 4 and name[0] == "C" and (name[1:] in topo.RES or name[1:] in topo.BASE):
        name, cterm = name[1:], True
    if name == "WAT":
        return ["O", "H1", "H2"]
    if name in ("RA", "DT5"):
        return sorted(a for a in topo.RES["RA" if name == "RA" else "DT"]["atoms"])
    st_ = topo.expected_state(name, nterm, cterm, neutraln, neutralc, ss=(name == "CYX"))
    return sorted(st_["atoms"] | ({"HD1", "HE2"} if st_["his_any"] else set()))


@st.composite
def userff_case(draw):
    chosen = draw(st.lists(st.sampled_from(CANON_RES), min_size=2, max_size=8, unique=True))
    galias = draw(st.lists(st.sampled_from([["H", "HN"], ["HA", "HA1"], ["O", "OT"], ["CA", "CX"]]),
                           min_size=0, max_size=2, unique_by=lambda x: x[0]))  # fmt: skip
    res = []
    for r in chosen:
        atoms = _res_atoms(r)
        res.append(dict(
            canon=r,
            mode=draw(st.sampled_from(["same", "rename", "rename", "cumulative"])),
            native=draw(st.text(alphabet="ABCDEFGHJK", min_size=2, max_size=3)),
            rename=[a for a in atoms if draw(st.integers(0, 6)) == 0],
            skip=[a for a in atoms if draw(st.integers(0, 19)) == 0],
            q=[draw(st.integers(-10000, 10000)) / 10000.0 for _ in atoms],
            r=[draw(st.integers(0, 25000)) / 10000.0 for _ in atoms],
            typ=draw(st.sampled_from(["", "CT", "H"])),
            blank=draw(st.booleans()), comment=draw(st.booleans()),
            # equivalent spellings of the same residue rule (the names are regular expressions)
            spell=draw(st.sampled_from([0, 0, 0, 1, 2, 3, 4])),
            # a rule in front of this residue's rules that matches NO residue of the parameter file (a names
            # file written for a larger force field) and renames one of this residue's atoms to another
            phantom=draw(st.sampled_from([None, None, None, [0, 1], [1, 0], [2, 5], [3, 1]])),
        ))  # fmt: skip
    his_group = draw(st.booleans())
    return dict(part="userff", residues=res, galias=galias, his_group=his_group,
                order=draw(st.permutations(list(range(len(res))))), tabs=draw(st.booleans()))  # fmt: skip


def _spell(canon, k):
    """Regular expressions that match exactly the canonical residue name `canon` (documented: the
    section name is a regular expression, `$` is appended)."""
    return [canon, f"({canon})", f"QQQ|{canon}", f"(?:{canon}|QQQ)", f"{canon[:-1]}[{canon[-1]}]"][k]


def build_pair(case):
    """-> (dat_text, names_text, truth{(canon_res, canon_atom): (q, r)}, fired features)."""
    truth = {}
    dat = ["# generated force field", ""]
    sections = {}
    fired = set()
    galias = {a: n for a, n in case["galias"]}
    sep = "\t" if case["tabs"] else "  "
    used_native = set()
    his = {}
    for k, rd in enumerate(case["residues"]):
        canon = rd["canon"]
        atoms = _res_atoms(canon)
        native = canon
        if rd["mode"] != "same":
            native = "X" + rd["native"] + str(k)
        if case["his_group"] and canon in ("HIP", "HID", "HIE"):
            native = "HS" + canon[2]  # resolved through HI([PDE]) -> HS$group
            his[canon] = native
        atom_native = {}
        for a in atoms:
            nat = galias.get(a, a)
            if a not in galias and a in rd["rename"]:
                nat = "Q" + a[:3]
                if nat in atom_native.values():
                    nat = a
            atom_native[a] = nat
        skipped = set(rd["skip"])
        rows = {}
        patch_rows = {}
        for i, a in enumerate(atoms):
            if a in skipped:
                continue
            q, r = rd["q"][i], rd["r"][i]
            nat = atom_native[a]
            if nat in rows:
                q, r = rows[nat]
            # cumulative mode: every third atom lives in a second native "patch" residue
            if rd["mode"] == "cumulative" and i % 3 == 2 and nat not in rows:
                patch_rows[nat] = (q, r)
            else:
                rows[nat] = (q, r)
            truth[(canon, a)] = (q, r)
        for nat, (q, r) in rows.items():
            dat.append(sep.join([native, nat, f"{q:.4f}", f"{r:.4f}"] + ([rd["typ"]] if rd["typ"] else [])))
        pnative = native + "P"
        for nat, (q, r) in patch_rows.items():
            dat.append(sep.join([pnative, nat, f"{q:.4f}", f"{r:.4f}"]))
        if rd["blank"]:
            dat.append("")
        if rd["comment"]:
            dat.append("# comment row 1.0 2.0")
        specific = {a: n for a, n in atom_native.items() if n != a and a not in galias and a not in skipped}
        secs = []
        cname = _spell(canon, rd.get("spell", 0))
        if rd.get("spell", 0):
            fired.add("spelled-regex")
        in_group = case["his_group"] and canon in his
        if native != canon and not in_group and rows:
            secs.append(f"  <residue>\n    <name>{cname}</name>\n    <useresname>{native}</useresname>\n  </residue>")
        if patch_rows:
            secs.append(f"  <residue>\n    <name>{cname}</name>\n    <useresname>{pnative}</useresname>\n  </residue>")
            fired.add("cumulative")
        if specific:
            sec = ["  <residue>", f"    <name>{cname}</name>"]
            for a, n in specific.items():
                sec += ["    <atom>", f"      <name>{a}</name>", f"      <useatomname>{n}</useatomname>", "    </atom>"]
                fired.add("alias")
            sec.append("  </residue>")
            secs.append("\n".join(sec))
        if rd.get("phantom") and len(atoms) >= 2:
            a_, b_ = atoms[rd["phantom"][0] % len(atoms)], atoms[rd["phantom"][1] % len(atoms)]
            if a_ != b_:
                secs.insert(0, f"  <residue>\n    <name>ZZ[0-9]Q</name>\n    <atom>\n      <name>{a_}</name>\n      "
                               f"<useatomname>{b_}</useatomname>\n    </atom>\n  </residue>")
                fired.add("phantom-rule")
        sections[k] = secs
        used_native.add(native)
    names = ["<?xml version='1.0'?>", "<ff>"]
    if his:
        names.append("  <residue>\n    <name>HI([PDE])</name>\n    <useresname>HS$group</useresname>\n  </residue>")
        fired.add("group")
    for k in case["order"]:
        names += sections.get(k, [])
    if galias:
        sec = ["  <residue>", "    <name>[A-Z0-9-]*</name>"]
        for a, n in galias.items():
            sec += ["    <atom>", f"      <name>{a}</name>", f"      <useatomname>{n}</useatomname>", "    </atom>"]
        sec.append("  </residue>")
        names.append("\n".join(sec))
        fired.add("regex")
    names.append("</ff>")
    return "\n".join(dat) + "\n", "\n".join(names) + "\n", truth, fired


def check_userff(case):
    from pdb2pqr import forcefield

    res = Result()
    dat, names, truth, fired = build_pair(case)
    d = scratch_dir()
    try:
        dp, np_ = os.path.join(d, "u.dat"), os.path.join(d, "u.names")
        with open(dp, "w") as fh:
            fh.write(dat)
        with open(np_, "w") as fh:
            fh.write(names)
        try:
            ff = forcefield.Forcefield(None, pipeline.definition(), dp, np_)
        except Exception as e:  # noqa: BLE001
            res.bad(f"C01:userff:load:{type(e).__name__}", f"documented-format pair rejected: {e!r}")
            return res
        model = ffmodel.resolve_text(dat, names, tuple(ffmodel.universe()))
        chosen = {rd["canon"] for rd in case["residues"]}
        # names that merely contain a chosen name (RA3 vs RA, CALA vs ALA ...) must stay undefined
        for other in ffmodel.universe():
            if other in chosen or not any(c in other for c in chosen):
                continue
            for a in ("N", "CA", "O", "H", "P", "C1'", "OXT"):
                got = ff.get_params(other, a)
                m = model.get(other, {}).get(a)
                if (got != (None, None)) != (m is not None):
                    res.bad("C01:userff:leak", f"{other} {a}: code {got}, documented resolution {m and m[:2]}")
        for rd in case["residues"]:
            canon = rd["canon"]
            for a in _res_atoms(canon) + ["XX9"]:
                got = ff.get_params(canon, a)
                exp = truth.get((canon, a), (None, None))
                m = model.get(canon, {}).get(a)
                mexp = (m[0], m[1]) if m else (None, None)
                if mexp != exp:
                    raise AssertionError(f"oracle self-disagreement {canon} {a}: model {mexp} truth {exp}")
                if got != exp:
                    kind = "invented" if exp == (None, None) else ("missing" if got == (None, None) else "value")
                    res.bad(f"C01:userff:{kind}", f"{canon} {a}: code {got} != truth {exp}")
        # history: the SAME parameter file with a second, empty names file - nothing of the first
        # pair's renaming may survive (state kept between loads would show up as invented entries)
        empty = "<?xml version='1.0'?>\n<ff>\n</ff>\n"
        np2 = os.path.join(d, "v.names")
        with open(np2, "w") as fh:
            fh.write(empty)
        try:
            ff2 = forcefield.Forcefield(None, pipeline.definition(), dp, np2)
            model2 = ffmodel.resolve_text(dat, empty, tuple(ffmodel.universe()))
            for rd in case["residues"]:
                canon = rd["canon"]
                for a in _res_atoms(canon):
                    got = ff2.get_params(canon, a)
                    m = model2.get(canon, {}).get(a)
                    exp = (m[0], m[1]) if m else (None, None)
                    if got != exp:
                        res.bad("C01:userff:names-leak-between-loads", f"{canon} {a}: second load of the same DAT with an empty "
                                f"names file gives {got}, documented resolution {exp}")  # fmt: skip
                        break
        except Exception as e:  # noqa: BLE001
            res.bad(f"C01:userff:load2:{type(e).__name__}", f"second load rejected: {e!r}")
    finally:
        shutil.rmtree(d, ignore_errors=True)
    res.nontrivial = bool(fired)
    res.label(*sorted(fired) or ["plain"])
    res.sample = dict(dat=dat[:600], names=names[:900])
    return res


# ------------------------------------------------------------------ end to end
@st.composite
def e2e_case(draw):
    from .. import e2e

    kind = draw(st.sampled_from(["protein", "protein", "protein", "na", "big"]))
    if kind == "big":
        # protein chains and strands in ONE file, 4-30 chains, one long chain
        desc = draw(e2e.big_structure())
        return dict(part="e2e", desc=desc, ff=e2e.big_ff(draw, desc), opts=draw(st.sampled_from([[], [], ["--noopt"], ["--whitespace"]])))
    if kind == "na":
        from . import c02

        c = draw(c02.na_case())
        c["part"] = "e2e"
        return c
    mode = draw(st.sampled_from([[], [], ["--noopt"], ["--nodebump", "--noopt"], ["--assign-only"]]))
    hyd = "all" if mode == ["--assign-only"] else None
    desc = draw(e2e.structure(max_chains=2, nmax=5, contact=False, variants=0.3, hyd=hyd))
    if draw(st.integers(0, 3)) == 0:
        e2e.add_hidden_ends(draw, desc)  # two molecules under one chain id, no TER
    ff = draw(st.sampled_from(strat.FFS))
    opts = list(mode)
    if ff == "PARSE" and not mode:
        for o in ("--neutraln", "--neutralc"):
            if draw(st.integers(0, 2)) == 0:
                opts.append(o)
    if draw(st.booleans()):
        opts.append("--whitespace")
    return dict(part="e2e", desc=desc, ff=ff, opts=opts)


def check_e2e(case):
    from .. import e2e

    res = Result()
    desc, ff, opts = case["desc"], case["ff"], case["opts"]
    s, r = e2e.run_case(desc, ff, opts)
    res.label(f"ff={ff}", f"big={desc['big']}" if desc.get("big") else ("na" if desc.get("na") else "protein"))
    if not r.ok:
        res.label("run-failed")
        return res
    A = e2e.analyse(desc, ff, opts, s, r)
    if A.pairs is None:
        res.label("unpaired")  # C03 reports partition/order problems
        return res
    model = ffmodel.builtin(ff)
    written = {id(a): ln for ln, a in A.pairs}
    special = False
    for entry in A.residues:
        g = entry["group"]
        obj = entry["obj"]
        if g is None:
            continue
        if g[0] == "water":
            state = "WAT"
        elif g[0] == "na":
            # the nucleotide's state follows from what was built: base letter, sugar type (2'-hydroxyl
            # present or not), strand position
            meta = s.strands[g[1]]
            state = topo.expected_na(meta["seq"][g[2]], meta["dna"], g[2] == 0, g[2] == meta["n"] - 1)["name"]
            ffname = getattr(obj, "ffname", obj.name)
            if ffname != state and meta["n"] > 1:
                res.bad("C01:e2e:wrong-state", f"{ff}: nucleotide {g[2]} of {'DNA' if meta['dna'] else 'RNA'} strand {''.join(meta['seq'])} is "
                        f"parameterised as {ffname!r}, its state is {state!r}")  # fmt: skip
            state = ffname
        else:
            exp = A.expected[(g[1], g[2])]
            state, _core = e2e.final_state_name(entry, exp)
            if "--assign-only" in opts and exp["his_any"]:
                state = exp["prefix"] + "HIP"
            if exp["prefix"] or exp["core"] not in topo.AA20:
                special = True
            ffname = getattr(obj, "ffname", None)
            if ffname != state:
                # parameters of a different state than the residue's final one are borrowed parameters
                res.bad("C01:e2e:wrong-state", f"{ff}: residue {g} ({desc['chains'][g[1]]['seq'][g[2]]}) is parameterised as "
                        f"{ffname!r}, its final state is {state!r}")  # fmt: skip
                state = ffname
        tab = model.get(state, {})
        for name, a in entry["atoms"].items():
            e = tab.get(name)
            ln = written.get(id(a))
            if e is None:
                if ln is not None:
                    res.bad("C01:e2e:borrowed", f"{ff} {state} {name}: no entry in the force field, yet written "
                            f"with q={ln['q']} r={ln['r']}")  # fmt: skip
                elif id(a) not in A.missing_ids:
                    res.bad("C01:e2e:silently-omitted", f"{ff} {state} {name}: omitted but not reported as unassigned")
                continue
            if ln is None:
                res.bad("C01:e2e:not-written", f"{ff} {state} {name}: force field defines {e[:2]} but the atom was not written")
                continue
            if abs(ln["q"] - e[0]) > 5.1e-5 or abs(ln["r"] - e[1]) > 5.1e-5:
                res.bad("C01:e2e:value", f"{ff} {state} {name}: written q={ln['q']} r={ln['r']}, force field "
                        f"{e[0]} {e[1]} (native {e[2]} {e[3]})")  # fmt: skip
    res.nontrivial = special or bool(desc.get("na"))
    return res


# ------------------------------------------------------------------ user force field end to end
@st.composite
def userff_e2e_case(draw):
    from .. import e2e

    desc = draw(e2e.structure(max_chains=2, nmax=4, contact=False, variants=0.2))
    return dict(part="userff-e2e", desc=desc, base=draw(st.sampled_from(ffmodel.FFS)),
                dr=[draw(st.sampled_from([0.0123, 0.25, 0.5, 0.0007])) for _ in range(2)],
                opts=draw(st.sampled_from([[], ["--noopt"], ["--whitespace"]])),
                # how the two files are named and addressed: absolute paths, bare relative names, relative names
                # that look like the shipped files (an edited copy of AMBER.DAT in the working directory)
                naming=draw(st.sampled_from(["abs", "abs", "rel", "rel-shipped", "rel-shipped-lower", "rel-dotted"])))  # fmt: skip


def check_userff_e2e(case):
    """--userff/--usernames: a built-in parameter file with every radius shifted by a drawn amount
    (charges untouched, so totals stay integral) and its names file; two different shifts are run
    one after the other in the same process under the same file names."""
    from .. import build, colfmt, e2e

    res = Result()
    desc, base = case["desc"], case["base"]
    e2e.normalise(desc, case["opts"])
    s = build.materialise(desc)
    d = topo.dat_dir()
    names_text = (d / f"{base}.names").read_text(encoding="utf-8")
    dat_text = (d / f"{base}.DAT").read_text(encoding="utf-8")
    res.label(f"base={base}")
    for k, dr in enumerate(case["dr"]):
        rows = []
        for ln in dat_text.splitlines():
            f = ln.split()
            if ln.startswith("#") or len(f) < 4:
                rows.append(ln)
                continue
            rows.append("\t".join([f[0], f[1], f[2], f"{float(f[3]) + dr:.4f}"] + f[4:5]))
        udat = "\n".join(rows) + "\n"
        nm = case.get("naming", "abs")
        fdat, fnames = {"abs": ("@DIR@/u.dat", "@DIR@/u.names"), "rel": ("u.dat", "u.names"),
                        "rel-shipped": (f"{base}.DAT", f"{base}.names"), "rel-shipped-lower": (f"{base.lower()}.dat", f"{base.lower()}.names"),
                        "rel-dotted": ("my.ff.v2.DAT", "my.ff.v2.names")}[nm]  # fmt: skip
        res.label(f"naming={nm}")
        r = pipeline.run(s.text(), [f"--userff={fdat}", f"--usernames={fnames}", "--keep-chain", *case["opts"]],
                         extra_files={fdat.replace("@DIR@/", ""): udat, fnames.replace("@DIR@/", ""): names_text})  # fmt: skip
        if not r.ok:
            res.label("run-failed")
            continue
        model = ffmodel.resolve_text(udat, names_text, tuple(ffmodel.universe()))
        A = e2e.analyse(desc, base, case["opts"], s, r)
        if A.pairs is None:
            continue
        for ln, a in A.pairs:
            state = getattr(a.residue, "ffname", None) or a.residue.name
            if state in ("HOH",):
                state = "WAT"
            e = model.get(state, {}).get(a.name)
            if e is None:
                res.bad("C01:userff-e2e:borrowed", f"user file (from {base}, radii +{dr}) has no entry for {state} {a.name}, yet written q={ln['q']} r={ln['r']}")
                break
            if abs(ln["q"] - e[0]) > 5.1e-5 or abs(ln["r"] - e[1]) > 5.1e-5:
                builtin = ffmodel.lookup(base, state, a.name)
                which = "the BUILT-IN value" if builtin and abs(ln["r"] - builtin[1]) < 5.1e-5 else (
                    "the value of the PREVIOUS user file" if k == 1 and abs(ln["r"] - (e[1] - dr + case["dr"][0])) < 5.1e-5 else "another value")
                res.bad("C01:userff-e2e:value", f"{state} {a.name}: written r={ln['r']} q={ln['q']}, the user file gives {e[1]} {e[0]} "
                        f"({which}; run {k + 1} of 2 in this process)")  # fmt: skip
                break
        for entry in A.residues:
            state = getattr(entry["obj"], "ffname", None) or entry["obj"].name
            for name, a in entry["atoms"].items():
                if id(a) in A.missing_ids and model.get("WAT" if state == "HOH" else state, {}).get(name) is not None:
                    res.bad("C01:userff-e2e:not-written", f"{state} {name}: the user file defines it but the atom is reported unassigned")
    res.nontrivial = True
    return res


def _ligand_cases():
    from . import c16

    return c16.complex_case().map(lambda c: dict(c, part="ligand", other=True))  # always with a foreign hetero group


def check_ligand(case):
    """Complexes with --ligand (generator and relations of C16): protein and water atoms keep the force
    field's values, ligand atoms carry the MOL2-derived values, and a hetero atom that neither the
    force field nor the MOL2 file knows is omitted and reported - never written with defaults."""
    from . import c16

    inner = c16.check_complex(case)
    res = Result()
    for sig, msg in inner.violations:
        for tail in ("partition", "ligand-values", "protein-values", "water-values"):
            if sig.endswith(":" + tail):
                res.bad("C01:ligand:" + ("unparameterised-atom-written" if tail == "partition" else tail), msg)
    res.nontrivial = inner.nontrivial
    res.labels = list(inner.labels)
    return res


def parts(tier):
    return [
        Part("userff-e2e", check_userff_e2e, strategy=userff_e2e_case(), budget=dict(quick=160, thorough=3000)),
        Part("table", check_table, cases=table_cases, exhaustive=True),
        Part("userff", check_userff, strategy=userff_case(), budget=dict(quick=400, thorough=5000)),
        Part("e2e", check_e2e, strategy=e2e_case(), budget=dict(quick=480, thorough=10000)),
        Part("ligand", check_ligand, strategy=_ligand_cases(), budget=dict(quick=160, thorough=3000)),
    ]


def selftest():
    ffmodel.selftest()
    topo.selftest()
