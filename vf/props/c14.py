"""C14 - neighbour search returns every atom within range."""

import math

import numpy as np
from hypothesis import strategies as st
from hypothesis.stateful import RuleBasedStateMachine, initialize, invariant, precondition, rule

from .. import e2e, strat
from ..core import Part, Result

ID = "C14"
RULE = (
    "cells: Hypothesis rule-based state machine over pdb2pqr.cells.Cells (cell size 2 or 5): "
    "rules add / remove / re-add / move (remove-mutate-add, as the callers do) with coordinates "
    "drawn from {negative, zero, exact integers, exact multiples of the cell size, +-1 ulp around "
    "them, offsets up to 1e4, random}; after EVERY step the all-pairs oracle runs: for every "
    "registered atom get_near_cells() filtered by distance < cutoff (cutoff <= cell size) must "
    "equal a brute-force search over the model set, must not contain unregistered atoms, "
    "duplicates or the atom itself, and every registered atom sits in exactly one cell.  "
    "Non-trivial = history with a move across a cell boundary followed by >= 1 later step, "
    "with >= 2 registered atoms within the cell size of each other.  "
    "pipeline: full pdb2pqr runs with Cells.get_near_cells wrapped by the harness (see DESIGN)."
    ' windows / nettable: the pipeline audit on real-structure windows and on the directed network '
    "table.  The audit also checks the map's own invariants: every registered atom sits in the cell "
    'of its current coordinates; at the end of a run every atom of the structure is registered; a '
    'returned one-shot iterable walked twice is reported.'
    ' big: the audit on a peptide in a 60-200 water box, protein + strands, 4-9 chains, a long chain.'
)
ASSUMPTIONS = [
    "oracle: brute-force numpy distances over the model set maintained by the harness",
    "cutoff <= cell size, as in every caller (debump 2.0/2.5 A on 5 A cells... all <= cell size)",
]


class _Pt:
    """Minimal stand-in for structures.Atom (Cells uses x, y, z, cell only)."""

    __slots__ = ("x", "y", "z", "cell", "uid")

    def __init__(self, uid, xyz):
        self.uid = uid
        self.x, self.y, self.z = xyz
        self.cell = None

    @property
    def coords(self):
        return [self.x, self.y, self.z]


def _special(size):
    base = [0.0, -0.0, 1.0, -1.0, float(size), -float(size), 2.0 * size, -2.0 * size,
            3.0 * size, -3.0 * size, 0.5, -0.5, 0.999999, -0.999999]  # fmt: skip
    out = list(base)
    for b in base:
        out += [math.nextafter(b, math.inf), math.nextafter(b, -math.inf)]
    return out


def coord(size):
    return st.one_of(
        st.sampled_from(_special(size)),
        strat.fl(-3.0 * size, 3.0 * size),
        st.builds(lambda k, e: float(k * size + e), st.integers(-4, 4), strat.fl(-1e-9, 1e-9)),
        st.builds(lambda o, x: o + x, st.sampled_from([1.0e4, -1.0e4, 9999.0, -9999.0]),
                  strat.fl(-float(size), float(size))),  # fmt: skip
    )


def point(size):
    return st.tuples(coord(size), coord(size), coord(size)).map(list)


class Interp:
    """Executes operations against the real Cells and the model; collects violations."""

    def __init__(self, size):
        from pdb2pqr.cells import Cells

        self.size = size
        self.cells = Cells(size)
        self.atoms = []  # all atoms ever created
        self.reg = set()  # uids currently registered (the model)
        self.res = Result()
        self.crossed_at = None
        self.steps = 0
        self.close_pairs = False

    def apply(self, op):
        kind = op[0]
        self.steps += 1
        try:
            if kind == "add":
                a = _Pt(len(self.atoms), op[1])
                self.atoms.append(a)
                self.cells.add_cell(a)
                self.reg.add(a.uid)
            elif not self.atoms:
                return
            elif kind == "remove":
                a = self.atoms[op[1] % len(self.atoms)]
                self.cells.remove_cell(a)
                self.reg.discard(a.uid)
            elif kind == "readd":
                a = self.atoms[op[1] % len(self.atoms)]
                if a.uid not in self.reg:
                    self.cells.add_cell(a)
                    self.reg.add(a.uid)
            elif kind == "move":
                a = self.atoms[op[1] % len(self.atoms)]
                was = a.uid in self.reg
                old = a.cell
                self.cells.remove_cell(a)
                a.x, a.y, a.z = op[2]
                if was:
                    self.cells.add_cell(a)
                    if a.cell != old and self.crossed_at is None:
                        self.crossed_at = self.steps
        except Exception as e:  # noqa: BLE001
            self.res.bad(f"C14:cells:exception:{type(e).__name__}", f"{op}: {e}")
        self.check_all()

    def check_all(self):
        size = self.size
        # structural: each registered atom in exactly one cell list, others in none
        count = {}
        for key, lst in self.cells.cellmap.items():
            for a in lst:
                count[a.uid] = count.get(a.uid, 0) + 1
        for a in self.atoms:
            n = count.get(a.uid, 0)
            if a.uid in self.reg and n != 1:
                self.res.bad("C14:cells:registration", f"registered atom in {n} cells")
            if a.uid not in self.reg and n != 0:
                self.res.bad("C14:cells:ghost", f"removed atom still in {n} cells")
        regs = [a for a in self.atoms if a.uid in self.reg]
        if len(regs) < 2:
            return
        P = np.array([a.coords for a in regs])
        D = np.linalg.norm(P[:, None] - P[None], axis=-1)
        for i, a in enumerate(regs):
            got = list(self.cells.get_near_cells(a))
            ids = [g.uid for g in got]
            if len(set(ids)) != len(ids):
                self.res.bad("C14:cells:duplicate", "an atom is returned twice")
            if a.uid in ids:
                self.res.bad("C14:cells:self", "query returns the query atom")
            if any(u not in self.reg for u in ids):
                self.res.bad("C14:cells:ghost-returned", "query returns an unregistered atom")
            for cutoff in (size, 0.6 * size):
                brute = {regs[j].uid for j in range(len(regs)) if j != i and D[i, j] < cutoff}
                if brute:
                    self.close_pairs = True
                filt = {
                    g.uid for g in got
                    if np.linalg.norm(np.array(g.coords) - P[i]) < cutoff
                }  # fmt: skip
                if filt != brute:
                    miss = sorted(brute - filt)
                    self.res.bad(
                        "C14:cells:missed-neighbour" if miss else "C14:cells:extra",
                        f"size {size}: atom at {a.coords} misses {[self.atoms[u].coords for u in miss][:2]}",
                    )

    def finish(self):
        self.res.nontrivial = (
            self.crossed_at is not None and self.crossed_at < self.steps and self.close_pairs
        )
        self.res.label(f"size={self.size}", "crossing" if self.crossed_at else "no-crossing",
                       "close-pairs" if self.close_pairs else "sparse")  # fmt: skip
        return self.res


def check_cells(case):
    it = Interp(case["size"])
    for op in case["ops"]:
        it.apply(op)
    return it.finish()


def machine(tier):
    class CellsMachine(RuleBasedStateMachine):
        sink = None

        def __init__(self):
            super().__init__()
            self.it = None
            self.ops = []

        @initialize(size=st.sampled_from([2, 5]))
        def init(self, size):
            self.size = size
            self.it = Interp(size)

        def _do(self, op):
            self.ops.append(op)
            self.it.apply(op)

        @rule(data=st.data())
        def add(self, data):
            self._do(["add", data.draw(point(self.size))])

        @rule(data=st.data())
        def add_near(self, data):
            """Add an atom close to an existing one (dense neighbourhoods)."""
            if not self.it.atoms:
                return self._do(["add", data.draw(point(self.size))])
            a = self.it.atoms[data.draw(st.integers(0, len(self.it.atoms) - 1))]
            d = data.draw(st.lists(strat.fl(-1.0, 1.0), min_size=3, max_size=3))
            s = self.size
            self._do(["add", [a.x + d[0] * s, a.y + d[1] * s, a.z + d[2] * s]])

        @precondition(lambda self: self.it is not None and self.it.atoms)
        @rule(i=st.integers(0, 63))
        def remove(self, i):
            self._do(["remove", i])

        @precondition(lambda self: self.it is not None and self.it.atoms)
        @rule(i=st.integers(0, 63))
        def readd(self, i):
            self._do(["readd", i])

        @precondition(lambda self: self.it is not None and self.it.atoms)
        @rule(i=st.integers(0, 63), data=st.data())
        def move(self, i, data):
            self._do(["move", i, data.draw(point(self.size))])

        @precondition(lambda self: self.it is not None and self.it.atoms)
        @rule(i=st.integers(0, 63), data=st.data())
        def nudge(self, i, data):
            """Small displacement (a torsion step), often across a boundary."""
            a = self.it.atoms[i % len(self.it.atoms)]
            d = data.draw(st.lists(strat.fl(-1.5, 1.5), min_size=3, max_size=3))
            self._do(["move", i, [a.x + d[0], a.y + d[1], a.z + d[2]]])

        @invariant()
        def noop(self):
            pass  # the oracle runs inside Interp.apply after every operation

        def teardown(self):
            if self.it is not None and type(self).sink is not None:
                case = dict(part="cells", size=self.size, ops=self.ops)
                type(self).sink(case, self.it.finish())

    return CellsMachine


# ------------------------------------------------------------------ pipeline level
STATS = {}
_wrapped = False
HBOND_SCAN_CUTOFF = 4.3  # distance filter of the hydrogen-bond scan in HydrogenRoutines.optimize_hydrogens


def _keyf(size, v):
    return (int(v) - 1) // size * size if v < 0 else int(v) // size * size


def install_pipeline_wrapper():
    """Harness-side wrappers on Cells: remember the biomolecule, audit every k-th query."""
    global _wrapped
    if _wrapped:
        return
    from pdb2pqr import cells as C

    orig_assign = C.Cells.assign_cells
    orig_query = C.Cells.get_near_cells

    def assign(self, biomolecule):
        self._vf_bio = biomolecule
        return orig_assign(self, biomolecule)

    class OneShot:
        """Stands in for a one-shot iterable returned by the code under test (same semantics: a
        second walk yields nothing) and records that a caller walked it again."""

        def __init__(self, items, stats, where):
            self.items, self.stats, self.where, self.walks = items, stats, where, 0

        def __iter__(self):
            self.walks += 1
            if self.walks > 1:
                if self.items:
                    self.stats.setdefault("exhausted", []).append(
                        f"a caller walks the neighbours of {self.where} a second time and gets nothing "
                        f"({len(self.items)} atoms were in range)")
                return iter(())
            return iter(self.items)

    def query(self, atom):
        out = orig_query(self, atom)
        if not isinstance(out, list):
            items = list(out)
            audited = query_audit(self, atom, items)
            return OneShot(audited, STATS, f"{atom.name} of {atom.residue}")
        return query_audit(self, atom, out)

    def query_audit(self, atom, out):
        st_ = STATS
        st_["queries"] = st_.get("queries", 0) + 1
        if st_["queries"] % st_.get("every", 5):
            return out
        bio = getattr(self, "_vf_bio", None)
        if bio is None or atom.cell is None:
            return out
        st_["audited"] = st_.get("audited", 0) + 1
        size = self.cellsize
        need = max(size, getattr(self, "_vf_need", 0)) if getattr(self, "_vf_need", 0) > size else size
        structure = [a for r in bio.residues for a in r.atoms]
        in_structure = {id(a) for a in structure}
        # ghosts: returned atoms that are no longer part of the structure
        for a in out:
            if id(a) not in in_structure:
                st_.setdefault("ghost", []).append(f"{a.name} of {a.residue} returned near {atom.name} of {atom.residue}")
                break
        got = {id(a) for a in out}
        # invariant of the map itself: every registered atom sits in the cell of its CURRENT coordinates
        # (a move that bypasses the map leaves a stale registration: queries from the far side miss it)
        for a in structure:
            if a.cell is not None and not a.name.startswith("LP"):
                want = tuple(_keyf(size, v) for v in a.coords)
                if tuple(a.cell) != want:
                    st_.setdefault("stale-registration", []).append(
                        f"{a.name} of {a.residue} is at {[round(v, 3) for v in a.coords]} (cell {want}) but registered in cell {tuple(a.cell)}")
                    break
        P = np.array([a.coords for a in structure]) if structure else np.zeros((0, 3))
        if len(P):
            d = np.linalg.norm(P - np.array(atom.coords), axis=1)
            for a, dd in zip(structure, d):
                if a is atom or dd >= need or a.name.startswith("LP"):
                    continue
                if id(a) not in got:
                    kind = "unregistered" if a.cell is None else ("stale" if a.cell != tuple(_keyf(size, v) for v in a.coords) else "missed")
                    if kind == "missed" and dd >= size:
                        kind = "cutoff-exceeds-cell-size"
                    st_.setdefault("missing:" + kind, []).append(
                        f"{a.name} of {a.residue} is {dd:.2f} A from {atom.name} of {atom.residue} but not returned ({kind})")
                    break
        return out

    C.Cells.assign_cells = assign
    C.Cells.get_near_cells = query
    # the hydrogen-bond scan filters neighbours at 4.3 A: the cell map it builds must cover that range
    from pdb2pqr import hydrogens as H

    for meth in ("initialize_full_optimization", "initialize_wat_optimization"):
        orig = getattr(H.HydrogenRoutines, meth)

        def wrapper(self, _orig=orig):
            out = _orig(self)
            try:
                self.debumper.cells._vf_need = HBOND_SCAN_CUTOFF
            except Exception:  # noqa: BLE001
                pass
            return out

        setattr(H.HydrogenRoutines, meth, wrapper)
    _wrapped = True


@st.composite
def pipeline_case(draw):
    from .. import e2e

    desc = draw(e2e.structure(max_chains=3, nmax=5, wild=draw(st.booleans()), contact=True, waters=True))
    if not desc.get("waters"):
        desc["waters"] = [dict(draw(strat.water()), chain="W", seq=300 + k) for k in range(2)]
    tit = None
    if draw(st.integers(0, 2)) == 0:
        # titration route (hydrogens are stripped and rebuilt, a second debumping pass follows)
        tit = dict(ph=draw(st.sampled_from([1.5, 4.0, 7.0, 12.5])),
                   pka=[[ci, i, draw(st.integers(0, 1400)) / 100.0] for ci, ch in enumerate(desc["chains"])
                        for i, rn in enumerate(ch["seq"]) if rn in ("ASP", "GLU", "HIS", "CYS", "TYR", "LYS", "ARG")])  # fmt: skip
    return dict(part="pipeline", desc=desc, ff=draw(st.sampled_from(["AMBER", "PARSE", "CHARMM"])), tit=tit,
                opts=draw(st.sampled_from([[], [], [], ["--noopt"], ["--nodebump"]])), every=draw(st.sampled_from([3, 5, 7])))  # fmt: skip


@st.composite
def big_case(draw):
    """Larger / mixed systems: peptide in a water box, protein + strands, 4-9 chains, a long chain."""
    from .. import e2e

    desc = draw(e2e.big_structure().filter(lambda d: d["big"] in ("water-box", "mixed", "many", "long")))
    return dict(part="big", desc=desc, ff=e2e.big_ff(draw, desc) if desc.get("na") else draw(st.sampled_from(["AMBER", "PARSE", "CHARMM"])),
                tit=None, opts=draw(st.sampled_from([[], [], [], ["--noopt"], ["--nodebump"]])), every=draw(st.sampled_from([5, 7, 11])))  # fmt: skip


@st.composite
def window_case(draw):
    """Windows cut from real structures (with their waters): natural hydroxyl / water networks reach
    optimiser branches (e.g. hydroxyls that accept but cannot donate) that template chains rarely do."""
    from .. import e2e

    return dict(part="windows", desc=draw(e2e.window_structure()), ff=draw(st.sampled_from(["AMBER", "PARSE", "CHARMM"])),
                opts=draw(st.sampled_from([[], [], [], ["--nodebump"]])), every=draw(st.sampled_from([3, 5, 7])))  # fmt: skip


def check_pipeline(case):
    from .. import e2e
    from . import c04

    install_pipeline_wrapper()
    c04.install_wrapper()
    res = Result()
    STATS.clear()
    STATS["every"] = case["every"]
    del c04.CALLS[:]
    opts = list(case["opts"])
    if case.get("tit"):
        from . import c06

        c06.install_fake_propka()
        c06.PKA.clear()
        c06.TERM_ROWS.clear()
        e2e.normalise(case["desc"], opts)
        for ci, i, v in case["tit"]["pka"]:
            ch = case["desc"]["chains"][ci]
            if i < len(ch["seq"]):
                c06.PKA[(ch["id"], ch.get("nums", [ch["start"] + k for k in range(len(ch["seq"]))])[i])] = v
        opts += ["--titration-state-method=propka", f"--with-ph={case['tit']['ph']}"]
        res.label("titration")
    s, r = e2e.run_case(case["desc"], case["ff"], opts)
    audited = STATS.get("audited", 0)
    res.label("run-ok" if r.ok else "run-failed", f"opts={' '.join(case['opts']) or 'default'}",
              "debump-rotation" if c04.CALLS else "no-rotation", f"audited>={min(audited // 50 * 50, 500)}")  # fmt: skip
    if r.ok:
        # end of the run: nothing is "under construction" any more - every atom of the structure must be
        # in the map (an atom that was placed but never registered is invisible to every later query)
        lost = [f"{a.name} of {a.residue}" for x in r.bio.residues for a in x.atoms if getattr(a, "cell", None) is None]
        if lost:
            res.bad("C14:pipeline:never-registered", f"{len(lost)} atoms of the final structure are in no cell, e.g. {lost[:3]}")
    for key, msgs in STATS.items():
        if key == "ghost":
            res.bad("C14:pipeline:ghost-returned", msgs[0])
        elif key == "stale-registration":
            res.bad("C14:pipeline:stale-registration", f"{msgs[0]} ({len(msgs)} audited queries)")
        elif key == "exhausted":
            res.bad("C14:pipeline:result-exhausted", msgs[0])
        elif key == "missing:unregistered":
            # an atom under construction (being rotated into place) is deliberately not registered yet
            res.label("unregistered-atom-near-query")
        elif isinstance(key, str) and key.startswith("missing:"):
            res.bad(f"C14:pipeline:{key}", f"{msgs[0]} ({len(msgs)} audited queries affected; {case['ff']} {case['opts']})")
    res.nontrivial = audited > 0 and (bool(c04.CALLS) or "--noopt" not in case["opts"])
    return res


def parts(tier):
    return [
        Part("nettable", check_pipeline, cases=lambda: e2e.network_cases("nettable", tier), exhaustive=True),
        Part("cells", check_cells, machine=machine, budget=dict(quick=1600, thorough=16000),
             machine_steps=dict(quick=40, thorough=60), shrink_key="ops"),  # fmt: skip
        Part("pipeline", check_pipeline, strategy=pipeline_case(), budget=dict(quick=240, thorough=4000)),
        Part("big", check_pipeline, strategy=big_case(), budget=dict(quick=64, thorough=1200)),
        Part("windows", check_pipeline, strategy=window_case(), budget=dict(quick=160, thorough=3000)),
    ]


def selftest():
    it = Interp(2)
    for op in (["add", [0.5, 0.5, 0.5]], ["add", [-0.5, 0.5, 0.5]], ["move", 0, [7.0, 0, 0]]):
        it.apply(op)
    assert not it.res.violations, it.res.violations
