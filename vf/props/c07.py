"""C07 - every coordinate record of the first model of a PDB input is ingested."""

from collections import Counter

import numpy as np
from hypothesis import strategies as st

from .. import build, colfmt, e2e, pipeline, strat, topo
from ..core import Part, Result

ID = "C07"
RULE = (
    "G3 PDB text mutator over G1 structures (1-2 chains, waters, insertion codes, negative and "
    "four-digit residue numbers, blank or repeated chain ids): drawn layout edits = blank lines, "
    "whitespace-only lines, CRLF endings, unknown record types, REMARK/ANISOU/CONECT/HETNAM/SIGATM "
    "lines at arbitrary positions (also inside residues and between alt-loc copies), extra TER at "
    "residue boundaries, early/repeated/leading END, MODEL/ENDMDL wrapping with 1-2 further models "
    "(perturbed copies), lines truncated after the coordinates, trailing blanks, alternate locations "
    "(adjacent or grouped copies).  Runs: --clean (pure ingestion) and full runs, --drop-water on/off. "
    "Oracle: independent fixed-column reader on the same bytes (first model, one atom per chain/"
    "number/icode/name = first listed alt-loc): multiset of (residue name, number, icode, atom name, "
    "x, y, z) must equal the model after --clean; in full runs every oracle heavy atom is present and "
    "waters are present iff --drop-water is absent.  Non-trivial = >= 1 edit before the last "
    "coordinate record, or > 1 model, or an alt-loc / insertion code."
    ' Every disordered atom has its own alt-loc label pair (A/B, B/C, B/A, C/D, 1/2); atom serial numbers run on, restart per block or are all equal.'
)
ASSUMPTIONS = [
    "wwPDB column layout; TER only at residue boundaries (inside a residue it is a malformed chain end)",
    "microheterogeneity (two residue names at one position) is out of scope",
]

EDITS = ["blank", "spaces", "unknown", "remark", "anisou", "conect", "hetnam", "sigatm", "ter", "end",
         "tab-blank", "master", "het-bad", "ssbond-bad", "cryst1-bad", "seqres-bad"]  # fmt: skip


@st.composite
def case(draw):
    nch = draw(st.integers(1, 2))
    chains = []
    ids = draw(st.sampled_from([["A", "B"], ["A", "A"], [" ", " "], ["B", "A"], ["x", "1"]]))
    for ci in range(nch):
        ch = draw(strat.chain(cid=ids[ci], nmin=1, nmax=4, variants=0, hyd=draw(st.sampled_from(["none", "none", "all"])),
                              oxt=True))  # fmt: skip
        n = len(ch["seq"])
        ch["ter"] = True
        ch.pop("altmod", None)  # names are compared as written in the file
        ch["shift"] = [40.0 * ci, 0.0, 0.0]
        if draw(st.integers(0, 2)) == 0:
            strat.add_insertion_codes(draw, ch)
        if ids[0] == ids[1] and ci == 1:
            off = 50 if chains[0]["start"] < 9000 else -100
            delta = chains[0]["start"] + off - ch["start"]
            ch["start"] += delta
            if "nums" in ch:
                ch["nums"] = [x + delta for x in ch["nums"]]
                if max(ch["nums"]) > 9999 or min(ch["nums"]) < -999:  # outside the 4-character column
                    ch.pop("nums")
                    ch.pop("icodes", None)
        chains.append(ch)
    desc = dict(chains=chains)
    desc["waters"] = [dict(draw(strat.water()), chain=draw(st.sampled_from(["W", ids[0], " "])), seq=700 + k,
                           resn=draw(st.sampled_from(["HOH", "HOH", "WAT"])), rec=draw(st.sampled_from(["HETATM", "HETATM", "ATOM"])))
                      for k in range(draw(st.integers(0, 2)))]  # fmt: skip
    if draw(st.integers(0, 3)) == 0:
        # a nucleic-acid strand, half of them with pre-remediation atom names (O5* ..., C5M)
        dna = draw(st.booleans())
        n = draw(st.integers(1, 3))
        desc["na"] = [dict(id=draw(st.sampled_from(["N", ids[0]])), dna=dna, p5=draw(st.booleans()), newnames=draw(st.booleans()),
                           seq="".join(draw(st.lists(st.sampled_from("ACGT" if dna else "ACGU"), min_size=n, max_size=n))),
                           style=draw(st.sampled_from(["bare", "R"])), start=draw(st.sampled_from([5001, 5501])),
                           stars=draw(st.sampled_from([0, 1, 1, 2])), shuffle=draw(st.sampled_from([0, 0, 7, 19])),
                           jitter=draw(st.sampled_from([0.0, 0.03])))]  # fmt: skip
    het = None
    if draw(st.integers(0, 2)) == 0:
        # a hetero group pdb2pqr has no definition for (ion, cofactor, modified residue)
        het = dict(resn=draw(st.sampled_from(["SO4", "MSE", "NAG", "ZN", "XYZ"])), n=draw(st.integers(1, 5)),
                   chain=draw(st.sampled_from(["H", ids[0], " "])), seq=draw(st.sampled_from([401, 950, -7])),
                   rec=draw(st.sampled_from(["HETATM", "HETATM", "ATOM"])),
                   alt=draw(st.sampled_from(["none", "adjacent", "grouped", "grouped"])),
                   at=draw(st.sampled_from(["end", "end", "start"])))  # fmt: skip
    edits = [[draw(st.integers(0, 400)), draw(st.sampled_from(EDITS))] for _ in range(draw(st.integers(0, 6)))]
    # alternate locations: each disordered atom has its OWN pair of labels (A/B is only the most common:
    # B/C next to A/B in one residue, labels listed in descending order, digits)
    alts = [[draw(st.integers(0, 400)), draw(st.sampled_from(["adjacent", "grouped"])), draw(st.integers(0, len(ALT_LABELS) - 1))]
            for _ in range(draw(st.integers(0, 3)))]
    return dict(
        part="layout", desc=desc, edits=edits, alts=alts, het=het,
        # column content that carries no coordinates: segment id (73-76), zero occupancy, odd B factors,
        # wrong/absent element symbols; a standard residue written with HETATM records
        segid=draw(st.sampled_from([None, None, "SEG1", "A", "PROA"])),
        occ0=draw(st.sampled_from([False, False, True])),
        elem=draw(st.sampled_from(["right", "right", "blank", "wrong", "lower"])),
        het_res=draw(st.sampled_from([None, None, None, 0, 1, 2])),
        # single-model files of docking programs: "MODEL 1" (number not in columns 11-14) / bare "MODEL"
        odd_model=draw(st.sampled_from([None, None, None, "MODEL 1", "MODEL", "MODEL        1"])),
        crlf=draw(st.sampled_from([False, False, True])),
        truncate=draw(st.sampled_from([None, None, 54, 60, 66, 78])),
        trailing=draw(st.sampled_from([0, 0, 3])),
        models=draw(st.sampled_from([0, 0, 1, 2, 3])),
        model_serials=draw(st.sampled_from(["from1", "from1", "from0", "from3", "all-same", "descending"])),
        serial0=draw(st.sampled_from([1, 1, 9995, 99990])),
        # atom serial numbers are not identifiers: blocks (hetero groups, waters, strands) that restart at 1,
        # files in which every record carries the same serial
        serials=draw(st.sampled_from(["running", "running", "running", "restart-per-block", "restart-per-block", "all-equal"])),
        lead_end=draw(st.sampled_from([False, False, False, True])),
        double_end=draw(st.booleans()),
        mode=draw(st.sampled_from(["clean", "clean", "clean", "full", "full-dropwater", "clean-dropwater"])),
        ff=draw(st.sampled_from(["AMBER", "PARSE", "CHARMM"])),
    )  # fmt: skip


ALT_LABELS = [("A", "B"), ("A", "B"), ("B", "C"), ("B", "A"), ("1", "2"), ("C", "D")]


def render(case):
    """-> (text, number of edits that sit before the last coordinate record)."""
    desc = case["desc"]
    e2e.normalise(desc, [])
    s = build.materialise(desc)
    recs = list(s.records)
    # atom lines with optional alt-loc copies
    lines = []  # (kind, text, record index)
    alt_at = {}
    alt_lab = {}
    for pos, style, *lab in case["alts"]:
        if recs:
            alt_at[pos % len(recs)] = style
            alt_lab[pos % len(recs)] = ALT_LABELS[lab[0]] if lab else ("A", "B")
    het = case.get("het")
    if het:
        names = {"SO4": ["S", "O1", "O2", "O3", "O4"], "ZN": ["ZN"], "MSE": ["N", "CA", "C", "O", "SE"],
                 "NAG": ["C1", "C2", "O5", "N2", "O7"], "XYZ": ["X1", "X2", "X3", "X4", "X5"]}[het["resn"]][: het["n"]]
        hrecs = [dict(name=nm, resn=het["resn"], chain=het["chain"], seq=het["seq"], icode=" ", rec=het["rec"],
                      xyz=np.array([90.0 + 1.5 * k, 80.0 - 1.1 * k, 70.0 + 0.7 * (k % 2)]), group=("het", 0))
                 for k, nm in enumerate(names)]  # fmt: skip
        if het["at"] == "start":
            alt_at = {k + len(hrecs): v for k, v in alt_at.items()}
            alt_lab = {k + len(hrecs): v for k, v in alt_lab.items()}
            recs = hrecs + recs
            base = 0
        else:
            base = len(recs)
            recs = recs + hrecs
        if het["alt"] != "none":
            for k in range(len(hrecs)):
                alt_at[base + k] = het["alt"]
    ters = set(s.ters) if not (het and het["at"] == "start") else {t + len(hrecs) for t in s.ters}
    grouped_pending = []
    serial = case.get("serial0", 1)
    for i, r in enumerate(recs):
        def fmt(alt, dx=0.0, occ=1.0):
            rec_ = r["rec"]
            if case.get("het_res") is not None and r["group"][0] == "chain" and r["group"][2] == case["het_res"]:
                rec_ = "HETATM"  # e.g. a modified / re-refined standard residue
            if case.get("occ0") and (i + serial) % 3 == 0:
                occ = 0.0
            ln = build.fmt_atom(serial, r["name"], r["resn"], r["chain"], r["seq"], r["icode"],
                                r["xyz"] + np.array([dx, 0.0, dx]), rec=rec_, alt=alt, occ=occ, b=(7.5 * i) % 100.0)  # fmt: skip
            el = case.get("elem", "right")
            if el != "right":
                sym = {"blank": "  ", "wrong": " X", "lower": ln[76:78].lower()}[el]
                ln = ln[:76] + sym
            if case.get("segid"):
                ln = ln[:72] + case["segid"].ljust(4) + ln[76:]
            return ln

        scheme = case.get("serials", "running")
        if scheme == "restart-per-block" and i > 0 and (recs[i - 1]["group"][0], recs[i - 1]["group"][1:2]) != (r["group"][0], r["group"][1:2]):
            serial = 1
        if i in alt_at:
            la, lb = alt_lab.get(i, ("A", "B"))
            lines.append(("atom", fmt(la, 0.0, 0.6), i))
            serial += scheme != "all-equal"
            if alt_at[i] == "adjacent":
                lines.append(("atom", fmt(lb, 0.35, 0.4), i))
                serial += scheme != "all-equal"
            else:
                grouped_pending.append((i, fmt(lb, 0.35, 0.4)))
        else:
            lines.append(("atom", fmt(" "), i))
            serial += scheme != "all-equal"
        last_of_res = i + 1 == len(recs) or (recs[i + 1]["group"], recs[i + 1]["seq"], recs[i + 1]["icode"]) != (r["group"], r["seq"], r["icode"])
        if last_of_res:
            for j, text in grouped_pending:
                lines.append(("atom", text, j))
            grouped_pending = []
            lines.append(("boundary", None, i))
        if i in ters:
            lines.append(("ter", "TER", i))
    # layout edits at drawn line positions
    n_before = 0
    last_atom = max((k for k, x in enumerate(lines) if x[0] == "atom"), default=0)
    for pos, kind in case["edits"]:
        k = pos % (len(lines) + 1)
        if kind == "ter":
            # only at residue boundaries
            b = [q for q, x in enumerate(lines) if x[0] == "boundary"]
            if not b:
                continue
            k = b[pos % len(b)]
            text = "TER"
        elif kind == "blank":
            text = ""
        elif kind == "spaces":
            text = "      "
        elif kind == "tab-blank":
            text = " \t "
        elif kind == "unknown":
            text = "FOOBAR   1 SOMETHING NOT IN THE FORMAT  1.0 2.0 3.0"
        elif kind == "remark":
            text = "REMARK 350 BIOMOLECULE: 1  ATOM      1  N   ALA A   1      11.104   6.134  -6.504"
        elif kind == "anisou":
            text = "ANISOU    1  N   ALA A   1     2406   1892   1614    198    519   -328       N  "
        elif kind == "sigatm":
            text = "SIGATM    1  N   ALA A   1       0.040   0.030   0.030  0.00  0.00           N  "
        elif kind == "conect":
            text = "CONECT    1    2    3"
        elif kind == "hetnam":
            text = "HETNAM     HOH WATER"
        elif kind == "het-bad":
            # records of KNOWN types that do not parse (blank / non-numeric fields): reported, never a reason
            # to lose a coordinate record
            text = "HET    SO4  A 101           SULFATE ION"
        elif kind == "ssbond-bad":
            text = "SSBOND   x CYS A    ?    CYS A   yy"
        elif kind == "cryst1-bad":
            text = "CRYST1   none"
        elif kind == "seqres-bad":
            text = "SEQRES   A"
        elif kind == "master":
            text = "MASTER        0    0    0    0    0    0    0    6   10    0   10    1"
        else:
            text = "END"
        if k <= last_atom:
            n_before += 1
            last_atom += 1
        lines.insert(k, ("edit", text, None))
    body = [x[1] for x in lines if x[1] is not None]
    out = []
    if case["lead_end"]:
        out.append("END")
    if case["models"]:
        nm = case["models"]
        serials = {"from1": list(range(1, nm + 1)), "from0": list(range(0, nm)), "from3": list(range(3, nm + 3)),
                   "all-same": [1] * nm, "descending": list(range(nm, 0, -1))}[case.get("model_serials", "from1")]
        out.append("MODEL     %4d" % serials[0])
        out += body
        out.append("ENDMDL")
        for m in range(1, case["models"]):
            out.append("MODEL     %4d" % serials[m])
            for r in recs:
                out.append(build.fmt_atom(1, r["name"], r["resn"], r["chain"], r["seq"], r["icode"],
                                          r["xyz"] + 0.5 * m, rec=r["rec"]))  # fmt: skip
            out.append("ENDMDL")
    elif case.get("odd_model"):
        out.append(case["odd_model"])
        out += body
        out.append("ENDMDL")
    else:
        out += body
    out.append("END")
    if case["double_end"]:
        out.append("END")
    final = []
    for ln in out:
        if ln.startswith(("ATOM", "HETATM")) and case["truncate"]:
            ln = ln[: case["truncate"]]
        if case["trailing"] and ln.strip():
            ln = ln + " " * case["trailing"]
        final.append(ln)
    eol = "\r\n" if case["crlf"] else "\n"
    return eol.join(final) + eol, n_before, s


NT = {"A": "RA", "C": "RC", "G": "RG", "U": "RU", "RA": "RA", "RC": "RC", "RG": "RG", "RU": "RU",
      "DA": "RA", "DC": "RC", "DG": "RG", "DT": "DT"}  # fmt: skip


def _canon(resn, name):
    """Pre-remediation nucleotide atom names (O5*, C5M ...) are the same atoms as the current names
    (pinned altname table of the nucleotide templates)."""
    if resn in NT:
        return topo.RES[NT[resn]]["alts"].get(name, name)
    return name


def _key(resn, seq, icode, name, x, y, z):
    resn = "WAT" if resn in ("HOH", "WAT") else resn
    if resn in ("A", "C", "G", "U"):
        resn = "R" + resn  # pdb2pqr's residue name of a ribonucleotide
    return (resn, seq, (icode or "").strip(), name, round(x, 3), round(y, 3), round(z, 3))


def check(case):
    res = Result()
    text, n_before, s = render(case)
    oracle = colfmt.read_pdb_first_model(text)
    mode = case["mode"]
    opts = []
    if mode.startswith("clean"):
        opts.append("--clean")
    else:
        opts.append(f"--ff={case['ff']}")
    if "dropwater" in mode:
        opts.append("--drop-water")
    opts.append("--keep-chain")
    r = pipeline.run(text.encode(), opts)
    het = case.get("het")
    has_alt = bool(case["alts"]) or bool(het and het["alt"] != "none")
    has_icode = any("icodes" in ch for ch in case["desc"]["chains"])
    res.nontrivial = n_before > 0 or case["models"] > 1 or has_alt or has_icode
    res.label(f"mode={mode}", f"models={case['models']}", "crlf" if case["crlf"] else "lf",
              "alt" if has_alt else "no-alt", "icode" if has_icode else "no-icode",
              f"edits-before={min(n_before, 3)}", *sorted({k for _p, k in case["edits"]}),
              *([f"het-alt={het['alt']}"] if het else []), *(["segid"] if case.get("segid") else []),
              *(["occupancy-0"] if case.get("occ0") else []), f"element={case.get('elem', 'right')}",
              *(["hetatm-standard-residue"] if case.get("het_res") is not None else []),
              *(["odd-model-line"] if case.get("odd_model") and not case["models"] else []),
              *("na-old-names" if x.get("stars") else "na" for x in case["desc"].get("na", [])))  # fmt: skip
    if not r.ok:
        if mode.startswith("clean"):
            res.bad(f"C07:clean-run-fails:{type(r.exc).__name__}", f"ingestion fails: {r.exc_text[:120]}")
        else:
            res.label("full-run-failed")
        return res
    want = Counter()
    # the 5'-terminal phosphate of a strand is removed by design (the termini do not model it)
    five = {(m["id"], m["start"]) for m in s.strands}
    # ... and so is the first nucleotide after any TER record (an extra TER at a residue boundary ends
    # the strand there; what follows is a new strand with its own 5' end)
    after_ter = False
    for ln in text.replace("\r", "").split("\n"):
        rec6 = ln[:6].strip()
        if rec6 == "TER":
            after_ter = True
        elif rec6 in ("ATOM", "HETATM") and len(ln) >= 26:
            if after_ter:
                try:
                    five.add((ln[21], int(ln[22:26])))
                except ValueError:
                    pass
            after_ter = False
        elif rec6 == "ENDMDL":
            break
    phosphate = ("P", "OP1", "OP2", "O1P", "O2P")
    for a in oracle:
        if "dropwater" in mode and a["resn"] in ("HOH", "WAT"):
            continue
        if a["name"] in phosphate and (a["chain"], a["seq"]) in five and a["resn"] in NT:
            continue
        want[_key(a["resn"], a["seq"], a["icode"], _canon(a["resn"], a["name"]), a["x"], a["y"], a["z"])] += 1
    got = Counter()
    for residue in r.bio.residues:
        for a in residue.atoms:
            if a.name in phosphate and (a.chain_id, a.res_seq) in five and a.res_name in NT:
                continue
            got[_key(residue.name if residue.name in ("WAT", "HOH") else a.res_name, a.res_seq, a.ins_code, a.name, a.x, a.y, a.z)] += 1
    if mode.startswith("clean"):
        if got != want:
            lost = list((want - got).elements())
            extra = list((got - want).elements())
            if lost and not extra:
                sig = "C07:records-lost"
            elif extra and not lost:
                sig = "C07:records-invented"
            else:
                sig = "C07:records-differ"
            # which alt-loc / later model?
            if extra and case["models"] > 1 and len(got) > len(want):
                sig = "C07:later-model-ingested"
            res.bad(sig, f"{len(oracle)} coordinate records in the first model, {sum(got.values())} atoms ingested; "
                    f"lost {lost[:2]}, unexpected {extra[:2]}")  # fmt: skip
    else:
        # side-chain atoms may be rotated by debumping: presence is compared by key only
        heavy_want = Counter(k[:4] for k in want.elements() if topo.heavy(k[3]))
        missing = heavy_want - Counter(k[:4] for k in got.elements())
        if missing:
            res.bad("C07:full:heavy-atom-lost", f"heavy atoms of the first model missing from the result: {list(missing)[:3]}")
    waters_in = any(a["resn"] in ("HOH", "WAT") for a in oracle)
    waters_out = any(x.name in ("WAT", "HOH") for x in r.bio.residues)
    if "dropwater" in mode and waters_out:
        res.bad("C07:water-kept", "--drop-water given but waters are in the model")
    if "dropwater" not in mode and waters_in and not waters_out:
        res.bad("C07:water-dropped", "waters removed although --drop-water was not given")
    return res


def parts(tier):
    return [Part("layout", check, strategy=case(), budget=dict(quick=1600, thorough=30000))]


def selftest():
    colfmt.selftest()
