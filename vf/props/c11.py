"""C11 - runs are deterministic and independent of process history."""

import json
import os
import shutil
import subprocess
import sys
from concurrent.futures import ThreadPoolExecutor

import numpy as np
from hypothesis import strategies as st
from hypothesis.stateful import RuleBasedStateMachine, rule

from .. import build, cifgen, e2e, molgen, strat
from ..core import Part, Result, scratch_dir

ID = "C11"
RULE = (
    "history: Hypothesis rule-based state machine; state = one Python process; rule run(i) executes "
    "pair i of a pool of 22 (input, options) pairs through the programmatic entry point "
    "(main.run_pdb2pqr): peptides, multi-chain contact structures with waters, DNA/RNA, repair, "
    "--assign-only, --ffout/--keep-chain/--whitespace, real PROPKA titration, ligand complex, mmCIF "
    "input, user force field, and failing runs (garbage input, non-integral charge, bad option "
    "combination, missing file).  Invariant after every step: the bytes written (or the failure "
    "type and the absence of output) equal the pair's reference.  References come from FRESH "
    "processes under PYTHONHASHSEED 0..7 and 'random'; all references of a pair must agree.  "
    "fresh: Hypothesis-generated structures/options run A, B, A in-process and once in a fresh "
    "process with a random hash seed.  Non-trivial = history in which a pair is re-run after >= 1 "
    "different or failing run (A..B..A); fresh: always."
    ' Pool and fresh cases include neutral termini on ASN / GLN / HIS ends, id-less hidden chains with --keep-chain and protein + RNA files.'
)
ASSUMPTIONS = [
    "single-threaded code: schedules are not a dimension; hash seeds and histories are sampled",
    "log output is not part of the result (only the PQR file and the failure type)",
]

HASHSEEDS = ["0", "1", "2", "3", "4", "5", "6", "7", "random"]


def _ch(cid, seq, start=1, hyd="none", oxt=True, k=0):
    n = len(seq)
    return dict(id=cid, start=start, seq=seq, phi=[-65.0 - 3 * k] * n, psi=[140.0, -45.0, 135.0, 150.0, -40.0, 140.0][:n],
                chi=[[-60.0 + 7 * k, 180.0, 60.0, 180.0, -60.0]] * n, hyd=hyd, oxt=oxt, q=[1, 0.2 + 0.1 * k, 0.1, 0.3], ter=True)


def pool():
    """(name, input text, extension, options, extra files) - deterministic."""
    out = []

    def pdb(desc):
        e2e.normalise(desc, [])
        return build.materialise(desc).text()

    pep = dict(chains=[_ch("A", ["ALA", "HIS", "SER", "ASP", "LYS"])], waters=[dict(anchor=3, dir=[0.3, 1.0, 0.2], d=2.9, chain="W", seq=300)])
    two = dict(chains=[_ch("A", ["ASN", "GLN", "TYR", "THR"]), dict(_ch("B", ["HIS", "SER", "CYS"], k=1), contact=dict(target=7, dir=[0.2, 1, 0.1], gap=3.0))],
               waters=[dict(anchor=5, dir=[1, 0.2, 0.3], d=2.8, chain="W", seq=301), dict(anchor=11, dir=[0, 1, 0.5], d=3.0, chain="W", seq=302)])
    gap = dict(chains=[_ch("A", ["LYS", "ARG", "TYR", "GLY", "ASN", "GLU"], oxt=False)], waters=[])
    allh = dict(chains=[_ch("C", ["THR", "GLN", "PRO", "TRP"], hyd="all")], waters=[])
    na = dict(chains=[], na=[dict(id="N", dna=True, seq="ACGT", p5=True, newnames=True, start=1), dict(id="M", dna=False, seq="GU", p5=False, newnames=False, start=20)])
    # a chain driven into a side-chain tip so that ALL hydrogens of the tip bump at once (the order in
    # which conflicts are collected then decides which torsion is tried first)
    for k, (seq, tgt) in enumerate(((["ALA", "LYS", "GLY"], 1), (["GLY", "LEU", "THR", "GLY"], 1), (["SER", "ARG", "MET"], 2))):
        tipd = dict(chains=[_ch("A", seq, k=k), dict(_ch("B", ["GLY", "ALA"], k=2), contact=dict(target=tgt, dir=[0.1, 0.05, 0.02], gap=1.3 + 0.2 * k, tip=True))],
                    waters=[])
        out.append((f"tip-clash-{k}", pdb(tipd), "pdb", [f"--ff={['AMBER', 'PARSE', 'CHARMM'][k]}"], {}))
    # exact ties: waters whose two (or four) hydrogen-bond partners are EXACTLY equidistant (mirror
    # images, as on special positions of a crystal / in symmetric assemblies): whatever order the
    # neighbour search returns them in must itself be a function of the input
    def tie_text(kind):
        st_ = build.materialise(dict(chains=[_ch("A", ["ALA", "SER", "THR", "ASN"])], waters=[]))
        seq = 100
        for t in range(16):
            x = 60.0 + 9.0 * (t % 8)
            y0 = 60.0 + 12.0 * (t // 8)
            centre = [x, y0, 12.0]
            if kind == "pairs":
                partners = [[x + 2.6, y0, 13.0], [x + 2.6, y0, 11.0]]
            else:
                partners = [[x + 2.5, y0 + 1.0, 12.0], [x + 2.5, y0 - 1.0, 12.0], [x - 2.5, y0 + 1.0, 12.0], [x - 2.5, y0 - 1.0, 12.0]]
            for p_ in [centre] + partners:
                st_.add(name="O", resn="HOH", chain="A", seq=seq, xyz=np.array(p_), rec="HETATM", group=("water",))
                seq += 1
        return st_.text()

    def squares_text(ncl):
        # waters on perfect 2.8 A squares: every water has two partners at exactly the same distance,
        # and many candidate hydrogen bonds in the network are exactly tied
        st_ = build.materialise(dict(chains=[_ch("A", ["GLY", "SER", "ALA"])], waters=[]))
        seq = 1
        for icl in range(ncl):
            ox, oy = 60.0 + 20.0 * (icl % 8), 60.0 + 20.0 * (icl // 8)
            for dx, dy in ((0, 0), (1, 0), (1, 1), (0, 1)):
                st_.add(name="O", resn="HOH", chain="W", seq=seq, xyz=np.array([ox + 2.8 * dx, oy + 2.8 * dy, 60.0]), rec="HETATM",
                        group=("water",))  # fmt: skip
                seq += 1
        return st_.text()

    out.append(("tie-water-squares", squares_text(64), "pdb", ["--ff=AMBER", "--keep-chain"], {}))
    out.append(("tie-water-pairs", tie_text("pairs"), "pdb", ["--ff=AMBER", "--keep-chain"], {}))
    out.append(("tie-water-quads", tie_text("quads"), "pdb", ["--ff=PARSE"], {}))
    out.append(("pep-amber", pdb(pep), "pdb", ["--ff=AMBER"], {}))
    out.append(("pep-parse-ws", pdb(pep), "pdb", ["--ff=PARSE", "--whitespace"], {}))
    out.append(("two-charmm", pdb(two), "pdb", ["--ff=CHARMM"], {}))
    out.append(("two-peoepb", pdb(two), "pdb", ["--ff=PEOEPB", "--keep-chain"], {}))
    out.append(("na-amber", pdb(na), "pdb", ["--ff=AMBER"], {}))
    out.append(("gap-swanson", pdb(gap), "pdb", ["--ff=SWANSON"], {}))
    out.append(("pep-tyl06-frozen", pdb(pep), "pdb", ["--ff=TYL06", "--nodebump", "--noopt"], {}))
    out.append(("pep-propka", pdb(pep), "pdb", ["--ff=PARSE", "--titration-state-method=propka", "--with-ph=7.0"], {}))
    out.append(("two-propka-ph3", pdb(two), "pdb", ["--ff=AMBER", "--titration-state-method=propka", "--with-ph=3.0", "--drop-water"], {}))
    c = molgen.Chooser([5, 3, 8, 1, 9, 2, 7, 4, 6, 11, 13, 2, 5])
    m = molgen.random_mol(c, max_atoms=25)
    names = molgen.default_names(m)
    s = build.materialise(dict(chains=[_ch("A", ["GLY", "SER", "LEU"])]))
    for i in range(len(m.atoms)):
        x, y, z = molgen.coords(i)
        s.add(name=names[i], resn="LIG", chain="L", seq=500, xyz=[x + 25, y + 25, z + 25], rec="HETATM", group=("lig", i))
    out.append(("ligand", s.text(), "pdb", ["--ff=AMBER", "--ligand=@DIR@/lig.mol2", "--keep-chain"], {"lig.mol2": molgen.to_mol2(m, names)}))
    out.append(("ffout", pdb(pep), "pdb", ["--ff=AMBER", "--ffout=CHARMM", "--keep-chain", "--whitespace"], {}))
    out.append(("assign-only", pdb(allh), "pdb", ["--ff=AMBER", "--assign-only"], {}))
    # mmCIF
    from . import c10

    cif_case = dict(desc=dict(chains=[_ch("A", ["ALA", "LYS", "SER"])]), nwat=1, big=None, models=2, alts=[9], label_chain="AA",
                    charges=True, shim=False, ff="AMBER", opts=[])
    out.append(("cif", cifgen.cif_text(c10.atoms_of(cif_case)), "cif", ["--ff=AMBER"], {}))
    out.append(("userff", pdb(pep), "pdb", ["--userff=@DIR@/u.dat", "--usernames=@DIR@/u.names"], {
        "u.dat": "ALA N -0.4 1.5\nALA CA 0.1 1.7\nALA C 0.5 1.7\nALA O -0.5 1.4\nALA CB -0.1 1.7\nWAT O -0.8 1.6\nWAT H1 0.4 1.0\nWAT H2 0.4 1.0\n",
        "u.names": "<ff>\n<residue><name>[NC]?ALA</name><useresname>ALA</useresname></residue>\n</ff>\n"}))
    out.append(("userff-b", pdb(pep), "pdb", ["--userff=@DIR@/u.dat", "--usernames=@DIR@/u.names", "--whitespace"], {
        "u.dat": "ALA N -0.3 1.6\nALA CA 0.0 1.8\nALA C 0.5 1.7\nALA O -0.5 1.4\nALA CB 0.3 1.9\nSER N -0.4 1.5\nSER CA 0.4 1.7\n",
        "u.names": "<ff>\n<residue><name>[NC]?ALA</name><useresname>ALA</useresname></residue>\n</ff>\n"}))
    # neutral termini on flippable / optimisable terminal residues; chains pdb2pqr has to name itself
    for k, last in enumerate(("ASN", "GLN", "HIS")):
        nt = dict(chains=[_ch("A", [["LYS", "SER", "THR"][k], "GLY", "SER", last], k=k)],
                  waters=[dict(anchor=20 + k, dir=[0.3, 1.0, 0.2], d=2.9, chain="W", seq=300)])
        out.append((f"neutral-termini-{last}", pdb(nt), "pdb", ["--ff=PARSE", "--neutraln", "--neutralc"][: 3 if k != 1 else 2] + (["--neutralc"] if k == 1 else []), {}))
    blank = dict(chains=[dict(_ch(" ", ["ALA", "ASP", "GLY"]), ter=False), dict(_ch(" ", ["SER", "LYS"], start=4, k=1), shift=[30.0, 0.0, 0.0]),
                         dict(_ch(" ", ["THR", "GLU", "ALA"], start=20, k=2), shift=[60.0, 0.0, 0.0])], waters=[])
    out.append(("blank-hidden-keepchain", pdb(blank), "pdb", ["--ff=AMBER", "--keep-chain"], {}))
    out.append(("blank-hidden-keepchain-ws", pdb(blank), "pdb", ["--ff=CHARMM", "--keep-chain", "--whitespace"], {}))
    mixed = dict(chains=[_ch("A", ["ARG", "GLY", "TYR"])], na=[dict(id="N", dna=False, seq="GAU", p5=True, newnames=True, start=1)], waters=[])
    out.append(("mixed-keepchain", pdb(mixed), "pdb", ["--ff=AMBER", "--keep-chain"], {}))
    # record-level oddities that the reader reports and survives - and a file in which the same record type
    # matters (whatever is remembered about a record type must not outlive the run)
    pep_lines = pdb(pep).splitlines()
    out.append(("odd-model-line", "\n".join(["MODEL 1", "HET    SO4  A 101           SULFATE ION"] + pep_lines[:-1] + ["ENDMDL", "END"]) + "\n",
                "pdb", ["--ff=AMBER"], {}))
    body = [ln for ln in pep_lines if ln.startswith(("ATOM", "HETATM", "TER"))]
    shifted = [ln[:30] + "%8.3f" % (float(ln[30:38]) + 0.7) + ln[38:] if ln.startswith(("ATOM", "HETATM")) else ln for ln in body]
    out.append(("multi-model", "\n".join(["MODEL        1"] + body + ["ENDMDL", "MODEL        2"] + shifted + ["ENDMDL", "END"]) + "\n",
                "pdb", ["--ff=AMBER"], {}))
    # failing runs
    out.append(("fail-garbage", "garbage\nnot a structure 1 2 3\n", "pdb", ["--ff=AMBER"], {}))
    out.append(("fail-nonintegral", pdb(dict(chains=[_ch("A", ["ALA", "SER", "GLY"])], waters=[])), "pdb", ["--ff=AMBER", "--assign-only"], {}))
    out.append(("fail-option", pdb(pep), "pdb", ["--ff=AMBER", "--neutraln"], {}))
    out.append(("fail-missing-ligand", pdb(pep), "pdb", ["--ff=AMBER", "--ligand=@DIR@/nope.mol2"], {}))
    return out


DRIVER = r"""
import sys, os, json, logging
logging.getLogger().addHandler(logging.NullHandler())
logging.getLogger('pdb2pqr').setLevel(logging.ERROR)
logging.getLogger('propka').setLevel(logging.ERROR)
from pdb2pqr.main import run_pdb2pqr
d, inp, args = sys.argv[1], sys.argv[2], json.loads(sys.argv[3])
os.chdir(d)
out = os.path.join(d, 'out.pqr')
import contextlib, io
try:
    with contextlib.redirect_stderr(io.StringIO()):
        run_pdb2pqr(args + [inp, out])
    res = {'ok': True}
except BaseException as e:
    res = {'ok': False, 'exc': type(e).__name__}
res['exists'] = os.path.exists(out)
res['bytes'] = open(out, 'rb').read().decode('latin-1') if res['exists'] else None
print(json.dumps(res))
"""


def run_fresh(text, ext, opts, extra, hashseed):
    """Run one pair in a fresh interpreter; returns the outcome dict."""
    d = scratch_dir("vf_c11_")
    try:
        inp = os.path.join(d, f"in.{ext}")
        with open(inp, "w") as fh:
            fh.write(text)
        for name, t in extra.items():
            with open(os.path.join(d, name), "w") as fh:
                fh.write(t)
        env = dict(os.environ, PYTHONHASHSEED=hashseed)
        env.pop("ELECTROSTATICS_PDB2PQR_VERIF", None)
        args = [o.replace("@DIR@", d) for o in opts]
        p = subprocess.run([sys.executable, "-c", DRIVER, d, inp, json.dumps(args)], capture_output=True, text=True, env=env,
                           timeout=600)  # fmt: skip
        line = [ln for ln in p.stdout.splitlines() if ln.startswith("{")]
        if not line:
            raise RuntimeError(f"driver produced no result: {p.stderr[-400:]}")
        return _norm(json.loads(line[-1]), d)
    finally:
        shutil.rmtree(d, ignore_errors=True)


def _norm(res, d):
    """Outcome without run-specific paths."""
    b = res.get("bytes")
    return dict(ok=res["ok"], exc=res.get("exc"), exists=res["exists"], bytes=None if b is None else b.replace(d, "@DIR@"))


def run_inproc(text, ext, opts, extra, keep_dir=None, keep_output=False):
    """keep_dir: run in this (existing) directory and leave it in place - the output path then still
    holds whatever an earlier run of the history wrote there (unless keep_output is False)."""
    from pdb2pqr.main import run_pdb2pqr

    from .. import pipeline

    pipeline.quiet_logging()
    d = keep_dir or scratch_dir("vf_c11_")
    cwd = os.getcwd()
    try:
        if keep_dir:
            for fn in os.listdir(d):
                if not (keep_output and fn == "out.pqr"):
                    os.remove(os.path.join(d, fn))
        inp = os.path.join(d, f"in.{ext}")
        with open(inp, "w") as fh:
            fh.write(text)
        for name, t in extra.items():
            with open(os.path.join(d, name), "w") as fh:
                fh.write(t)
        out = os.path.join(d, "out.pqr")
        os.chdir(d)
        import contextlib
        import io

        try:
            with contextlib.redirect_stderr(io.StringIO()):
                run_pdb2pqr([o.replace("@DIR@", d) for o in opts] + [inp, out])
            res = dict(ok=True)
        except KeyboardInterrupt:
            raise
        except BaseException as e:  # noqa: BLE001
            res = dict(ok=False, exc=type(e).__name__)
        res["exists"] = os.path.exists(out)
        res["bytes"] = open(out, "rb").read().decode("latin-1") if res["exists"] else None
        return _norm(res, d)
    finally:
        os.chdir(cwd)
        if not keep_dir:
            shutil.rmtree(d, ignore_errors=True)


_REFS = None
_POOL = None
_REF_DIR = None


def prepare(tier, seed):
    """Parent process: fresh-process references under several hash seeds."""
    global _REF_DIR
    P = pool()
    jobs = [(i, hs) for i in range(len(P)) for hs in HASHSEEDS]

    def one(job):
        i, hs = job
        _name, text, ext, opts, extra = P[i]
        return job, run_fresh(text, ext, opts, extra, hs)

    with ThreadPoolExecutor(16) as ex:
        results = list(ex.map(one, jobs))
    refs = {}
    for (i, hs), r in results:
        refs.setdefault(str(i), {})[hs] = r
    _REF_DIR = scratch_dir("vf_c11refs_")
    path = os.path.join(_REF_DIR, "refs.json")
    with open(path, "w") as fh:
        json.dump(refs, fh)
    os.environ["VF_C11_REFS"] = path


def cleanup():
    if _REF_DIR:
        shutil.rmtree(_REF_DIR, ignore_errors=True)


def _load():
    global _REFS, _POOL
    if _REFS is None:
        with open(os.environ["VF_C11_REFS"]) as fh:
            _REFS = json.load(fh)
        _POOL = pool()
    return _POOL, _REFS


def _same(a, b):
    return (a["ok"], a["exc"], a["exists"], a["bytes"]) == (b["ok"], b["exc"], b["exists"], b["bytes"])


# ------------------------------------------------------------------ reference agreement (hash seeds)
def refs_cases():
    return [dict(part="hashseeds", pair=i) for i in range(len(pool()))]


def check_refs(case):
    P, R = _load()
    res = Result()
    name = P[case["pair"]][0]
    refs = R[str(case["pair"])]
    base = refs["0"]
    for hs, r in refs.items():
        if not _same(base, r):
            what = "bytes" if base["bytes"] != r["bytes"] else "outcome"
            res.bad("C11:hash-seed-dependent", f"pair {name}: fresh-process {what} differ between PYTHONHASHSEED=0 and {hs}")
    if base["ok"] and not base["exists"]:
        res.bad("C11:harness:no-output", f"pair {name} succeeded without output")
    res.nontrivial = True
    res.label(name, "succeeds" if base["ok"] else f"fails:{base['exc']}")
    return res


# ------------------------------------------------------------------ histories
class Interp:
    def __init__(self):
        self.P, self.R = _load()
        self.res = Result()
        self.seen = []
        self.aba = False
        self.dir = None  # ONE directory per history (created at the first run): same input and output paths every run

    def run(self, i):
        i = i % len(self.P)
        name, text, ext, opts, extra = self.P[i]
        ref = self.R[str(i)]["0"]
        if self.dir is None:
            self.dir = scratch_dir("vf_c11h_")
        # a successful run overwrites whatever an earlier run left at the output path (often a longer
        # file); before a run that is expected to fail the path is cleared (C12 owns that rule)
        got = run_inproc(text, ext, opts, extra, keep_dir=self.dir, keep_output=bool(ref["ok"]))
        if i in self.seen and self.seen[-1] != i:
            self.aba = True
        if not _same(got, ref):
            if got["ok"] != ref["ok"] or got["exc"] != ref["exc"]:
                what = f"outcome {('ok' if got['ok'] else got['exc'])} vs reference {('ok' if ref['ok'] else ref['exc'])}"
            elif got["exists"] != ref["exists"]:
                what = f"output exists={got['exists']} vs reference {ref['exists']}"
            else:
                a, b = (got["bytes"] or "").splitlines(), (ref["bytes"] or "").splitlines()
                k = next((j for j, (x, y) in enumerate(zip(a + [""], b + [""])) if x != y), -1)
                what = f"bytes differ at line {k}: {a[k] if k < len(a) else ''!r} vs {b[k] if k < len(b) else ''!r}"
            hist = [self.P[j][0] for j in self.seen[-4:]]
            res_sig = "C11:history-dependent" if self.seen else "C11:inprocess-vs-fresh"
            self.res.bad(res_sig, f"pair {name} after history ...{hist}: {what}")
        self.seen.append(i)

    def finish(self):
        if self.dir is not None:
            shutil.rmtree(self.dir, ignore_errors=True)
            self.dir = None
        self.res.nontrivial = self.aba
        self.res.label("A-B-A" if self.aba else "no-repeat", f"len={min(len(self.seen), 12)}")
        return self.res


def check_history(case):
    it = Interp()
    for i in case["ops"]:
        it.run(i)
    return it.finish()


def machine(tier):
    npairs = len(pool())

    class Runs(RuleBasedStateMachine):
        sink = None

        def __init__(self):
            super().__init__()
            self.it = Interp()
            self.ops = []

        @rule(i=st.integers(0, 10**6))
        def run(self, i):
            i = i % npairs
            self.ops.append(i)
            self.it.run(i)

        @rule(k=st.integers(1, 3))
        def rerun_earlier(self, k):
            """Re-run a pair that ran before (the A-B-A shape)."""
            if len(self.ops) >= k + 1:
                i = self.ops[-(k + 1)]
                self.ops.append(i)
                self.it.run(i)

        def teardown(self):
            result = self.it.finish()  # always: removes the history's directory
            if type(self).sink is not None and self.ops:
                type(self).sink(dict(part="history", ops=list(self.ops)), result)

    return Runs


# ------------------------------------------------------------------ generated inputs, fresh process
@st.composite
def fresh_case(draw):
    desc = draw(e2e.structure(max_chains=2, nmax=5, contact=True, waters=True, variants=0.2))
    if len(desc["chains"]) < 2:
        desc["chains"].append(draw(strat.chain(cid="Q", nmin=1, nmax=3, variants=0)))
    # a second chain driven into a side-chain tip: several added hydrogens bump at once, which is
    # where the order of conflict lists / candidate sets decides the outcome
    if draw(st.integers(0, 2)) > 0:
        desc["chains"][1].pop("shift", None)
        desc["chains"][1]["contact"] = draw(strat.contact(tip=True))
    ff = draw(st.sampled_from(strat.FFS + ["PARSE"]))
    opts = list(draw(st.sampled_from([[], [], ["--noopt"], ["--nodebump"], ["--whitespace", "--keep-chain"], ["--keep-chain"]])))
    layout = draw(st.sampled_from(["plain", "plain", "hidden-ends", "blank-ids", "mixed"]))
    if layout == "hidden-ends":
        e2e.add_hidden_ends(draw, desc)  # chains that pdb2pqr has to find and NAME itself
    elif layout == "blank-ids":
        desc.pop("order", None)
        for ch in desc["chains"]:
            ch["id"], ch["ter"] = " ", True
        desc["waters"] = []
    elif layout == "mixed":
        desc["na"] = draw(e2e.strands(kmax=1))
        ff = e2e.big_ff(draw, desc)
    if ff == "PARSE" and draw(st.booleans()):
        # neutral termini: other patches, other hydrogens, other flip / optimisation candidates
        opts += draw(st.sampled_from([["--neutraln"], ["--neutralc"], ["--neutraln", "--neutralc"]]))
        if draw(st.booleans()):
            desc["chains"][0]["seq"][-1] = draw(st.sampled_from(["ASN", "GLN", "HIS"]))
    return dict(part="fresh", desc=desc, ff=ff, opts=opts, layout=layout, other=draw(st.integers(0, 10**6)))  # fmt: skip


def check_fresh(case):
    P, _R = _load()
    res = Result()
    desc = case["desc"]
    e2e.normalise(desc, case["opts"])
    text = build.materialise(desc).text()
    opts = [f"--ff={case['ff']}", *case["opts"]]
    a1 = run_inproc(text, "pdb", opts, {})
    o = P[case["other"] % len(P)]
    run_inproc(o[1], o[2], o[3], o[4])
    a2 = run_inproc(text, "pdb", opts, {})
    f = run_fresh(text, "pdb", opts, {}, "random")
    for hs in ("1", "2", "3"):
        f2 = run_fresh(text, "pdb", opts, {}, hs)
        if not _same(f, f2):
            res.bad("C11:hash-seed-dependent", f"generated input: fresh processes disagree between a random hash seed and "
                    f"PYTHONHASHSEED={hs} ({case['ff']} {case['opts']})")  # fmt: skip
            break
    if not _same(a1, a2):
        res.bad("C11:history-dependent", f"generated input: result changes after running pair {o[0]} in between ({case['ff']} {case['opts']})")
    if not _same(a1, f):
        res.bad("C11:inprocess-vs-fresh", f"generated input: in-process result differs from a fresh process with a random hash seed "
                f"({case['ff']} {case['opts']})")  # fmt: skip
    res.nontrivial = True
    res.label(f"ff={case['ff']}", "succeeds" if a1["ok"] else "fails", f"layout={case.get('layout', 'plain')}",
              *[o for o in case["opts"] if o.startswith("--neutral")])  # fmt: skip
    return res


def parts(tier):
    return [
        Part("hashseeds", check_refs, cases=refs_cases, exhaustive=False, shards=4),
        Part("history", check_history, machine=machine, budget=dict(quick=160, thorough=1600),
             machine_steps=dict(quick=10, thorough=24), shrink_key="ops"),  # fmt: skip
        Part("fresh", check_fresh, strategy=fresh_case(), budget=dict(quick=64, thorough=800)),
    ]


def selftest():
    assert len(pool()) >= 16
