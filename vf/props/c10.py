"""C10 - mmCIF and PDB encodings of one structure give the same result."""

import numpy as np
from hypothesis import strategies as st

from .. import build, cifgen, e2e, pipeline, strat, topo
from ..core import Part, Result

ID = "C10"
RULE = (
    "One generated descriptor (G1: 1-2 chains, all residue types, heavy-only or all-hydrogen input, "
    "waters) is written as PDB (G1 writer) and as mmCIF (independent G4 writer, wwPDB-shaped block, "
    "21 standard atom_site items, CIF quoting, '.'/'?' markers) with drawn features: alternate "
    "locations, insertion codes, formal charges, four-character atom names (input hydrogens such as "
    "HD11/HH12), eight-character coordinates (<= -100.000 or >= 1000.000, inside the PDB column "
    "range), 1-3 models, multi-character label_asym_id differing from auth_asym_id.  Both files run "
    "through pdb2pqr with the same options; pdbx missing-value conventions: native (2.x) and a "
    "harness shim returning the raw '.'/'?' strings (1.x).  Oracle (differential): equal multisets "
    "of (residue name, chain, number, icode, atom name, x, y, z, charge, radius) and equal PQR atom "
    "lines.  Non-trivial = >= 1 of the listed features present."
)
ASSUMPTIONS = [
    "other pdbx releases cannot be installed offline: the 1.x convention is emulated by a shim on atom_site values",
    "coordinates stay inside the PDB column range so the structure is expressible in both formats",
]


@st.composite
def case(draw):
    nch = draw(st.integers(1, 2))
    chains = []
    for ci in range(nch):
        ch = draw(strat.chain(cid="AB"[ci], nmin=1, nmax=4, variants=0.15, oxt=True,
                              hyd=draw(st.sampled_from(["none", "none", "all"]))))  # fmt: skip
        ch["shift"] = [30.0 * ci, 0.0, 0.0]
        ch.pop("altmod", None)
        n = len(ch["seq"])
        if draw(st.integers(0, 2)) == 0:
            strat.add_insertion_codes(draw, ch)
        chains.append(ch)
    return dict(
        part="diff", desc=dict(chains=chains),
        nwat=draw(st.integers(0, 2)),
        # an RNA strand that already carries its hydrogens (NMR / pre-protonated files): names with primes
        # and double primes (H5'', H2'', HO2') need quoting in mmCIF
        rna=draw(st.sampled_from([None, None, None, "AU", "GCA", "UG"])),
        big=draw(st.sampled_from([None, None, [-150.0, 1200.0, -250.0], [2000.0, -300.0, 5000.0]])),
        models=draw(st.sampled_from([1, 1, 2, 3])),
        model_nums=draw(st.sampled_from(["from1", "from1", "from9", "descending", "from0", "gaps"])),
        cif_order=draw(st.one_of(st.none(), st.permutations(list(range(21))))),
        cif_omit=[x for x in cifgen.OPTIONAL_ITEMS if draw(st.integers(0, 3)) == 0],
        cif_rows=draw(st.sampled_from(["by-model", "by-model", "polymer-first", "reversed-models"])),
        alts=[draw(st.integers(0, 500)) for _ in range(draw(st.integers(0, 2)))],
        label_chain=draw(st.sampled_from(["same", "AA", "other"])),
        charges=draw(st.booleans()),
        zero_charge=draw(st.sampled_from([False, False, True])),  # explicit 0 in pdbx_formal_charge (PDB: blank)
        shim=draw(st.booleans()),
        ff=draw(st.sampled_from(["AMBER", "PARSE", "CHARMM", "SWANSON"])),
        opts=draw(st.sampled_from([[], [], ["--noopt"], ["--nodebump"], ["--clean"]])),
    )  # fmt: skip


def atoms_of(case):
    desc = case["desc"]
    e2e.normalise(desc, case["opts"])
    s = build.materialise(desc)
    off = np.array(case["big"]) if case["big"] else np.zeros(3)
    if case.get("rna"):
        s.strands = [build.strand_records(s, dict(id="R", dna=False, seq=case["rna"], p5=False, newnames=True, style="bare", start=601,
                                                 hyd="all", shift=[0.0, 40.0, 60.0]), 0)]  # fmt: skip
    recs = [r for r in s.records if r["group"][0] in ("chain", "na")]
    alt_idx = {a % len(recs) for a in case["alts"]} if recs else set()
    # never split backbone atoms (keeps residue identity trivial to compare)
    atoms = []
    nm = case["models"]
    labels = {"from1": list(range(1, nm + 1)), "from9": list(range(9, 9 + nm)), "descending": list(range(nm + 4, 4, -1)),
              "from0": list(range(0, nm)), "gaps": [2 + 5 * k for k in range(nm)]}[case.get("model_nums", "from1")]
    for m in range(1, case["models"] + 1):
        serial = 1
        for i, r in enumerate(recs):
            label = {"same": r["chain"], "AA": r["chain"] + "A", "other": "QRS"["AB".index(r["chain"])] if r["chain"] in "AB" else "Z"}[case["label_chain"]]
            base = dict(rec="ATOM", name=r["name"], resn=r["resn"], chain=r["chain"], label_chain=label, seq=r["seq"],
                        icode=r["icode"], b=10.0, elem=r["name"].lstrip("0123456789")[0], model=labels[m - 1],
                        charge="", pdbcharge="", label_seq=r["group"][2] + 1)  # fmt: skip  (label_seq_id is 1-based, as in wwPDB files)
            if case.get("zero_charge"):
                base["charge"] = "0"
            if case["charges"] and r["name"] in ("NZ", "OD2", "OE2"):
                base["charge"] = "1" if r["name"] == "NZ" else "-1"
                base["pdbcharge"] = "1+" if r["name"] == "NZ" else "1-"
            xyz = r["xyz"] + off + (m - 1) * 0.37
            if i in alt_idx and r["name"] not in ("N", "CA", "C", "O"):
                for al, d, occ in (("A", 0.0, 0.6), ("B", 0.4, 0.4)):
                    atoms.append(dict(base, serial=serial, alt=al, xyz=np.round(xyz + d, 3), occ=occ))
                    serial += 1
            else:
                atoms.append(dict(base, serial=serial, alt=" ", xyz=np.round(xyz, 3), occ=1.0))
                serial += 1
        for w in range(case["nwat"]):
            atoms.append(dict(rec="HETATM", serial=serial, name="O", alt=" ", resn="HOH", chain="A", label_chain="W", seq=500 + w,
                              icode=" ", xyz=np.round(np.array([50.0 + 4 * w, 50.0, 50.0]) + off + (m - 1) * 0.2, 3), occ=1.0,
                              b=20.0, elem="O", charge="", pdbcharge="", model=labels[m - 1]))  # fmt: skip
            serial += 1
    return atoms


def _pdb_text(atoms):
    # PDB charge column uses digit+sign
    return cifgen.pdb_text([dict(a, charge=a["pdbcharge"][::-1] if a["pdbcharge"] else "") for a in atoms])


_shim_on = {"v": False}
_shim_installed = False


def install_shim():
    """Emulate pdbx 1.x: atom_site.get_value returns the raw '.' / '?' markers."""
    global _shim_installed
    if _shim_installed:
        return
    import pdbx.containers as pc

    cls = pc.DataCategory
    orig = cls.get_value

    def get_value(self, attribute_name=None, row_index=None):
        v = orig(self, attribute_name, row_index)
        if _shim_on["v"] and getattr(self, "name", "") == "atom_site":
            if v == "":
                return "."
            if v is None:
                return "?"
        return v

    cls.get_value = get_value
    _shim_installed = True


def _result(r):
    out = []
    for residue in r.bio.residues:
        for a in residue.atoms:
            out.append((a.res_name, a.chain_id, a.res_seq, a.ins_code or "", a.name, round(a.x, 3), round(a.y, 3), round(a.z, 3),
                        None if a.ffcharge is None else round(a.ffcharge, 4), None if a.radius is None else round(a.radius, 4)))  # fmt: skip
    return sorted(out, key=repr)


def check(case):
    res = Result()
    atoms = atoms_of(case)
    opts = ([] if "--clean" in case["opts"] else [f"--ff={case['ff']}"]) + ["--keep-chain", *case["opts"]]
    has4 = any(len(a["name"]) == 4 for a in atoms)
    feats = dict(alt=bool(case["alts"]), icode=any("icodes" in ch for ch in case["desc"]["chains"]), big=bool(case["big"]),
                 models=case["models"] > 1, label=case["label_chain"] != "same", charge=any(a["charge"] for a in atoms), name4=has4,
                 layout=bool(case.get("cif_order") or case.get("cif_omit")) or case.get("cif_rows") == "polymer-first",
                 modelnums=case["models"] > 1 and case.get("model_nums", "from1") != "from1")  # fmt: skip
    res.nontrivial = any(feats.values())
    res.label(*[k for k, v in feats.items() if v], "shim-1.x" if case["shim"] else "native-2.x", f"ff={case['ff']}",
              " ".join(case["opts"]) or "default")  # fmt: skip
    r_pdb = pipeline.run(_pdb_text(atoms), opts, ext="pdb")
    install_shim()
    _shim_on["v"] = bool(case["shim"])
    try:
        rows = list(atoms)
        if case.get("cif_rows") == "polymer-first":
            # entity-sorted layout: polymer rows of all models first, then the hetero rows of all models
            rows = [a for a in atoms if a["rec"] == "ATOM"] + [a for a in atoms if a["rec"] != "ATOM"]
        r_cif = pipeline.run(cifgen.cif_text(rows, case.get("cif_order"), case.get("cif_omit") or ()), opts, ext="cif")
    finally:
        _shim_on["v"] = False
    if not r_pdb.ok:
        res.label("pdb-run-failed")
        if r_cif.ok:
            res.bad("C10:only-pdb-fails", f"PDB encoding fails ({r_pdb.exc_text[:80]}) but mmCIF succeeds")
        res.nontrivial = False
        return res
    if not r_cif.ok:
        res.bad(f"C10:cif-run-fails:{type(r_cif.exc).__name__}", f"mmCIF encoding fails: {r_cif.exc_text[:120]} (features {feats})")
        return res
    a, b = _result(r_pdb), _result(r_cif)
    if a != b:
        only_p = [x for x in a if x not in b][:2]
        only_c = [x for x in b if x not in a][:2]
        kind = "atoms"
        if len(a) == len(b):
            ka = [x[:5] for x in a]
            kb = [x[:5] for x in b]
            kind = "values" if sorted(ka) == sorted(kb) else "identity"
        res.bad(f"C10:differ:{kind}", f"PDB gives {len(a)} atoms, mmCIF {len(b)}; only PDB {only_p}; only mmCIF {only_c}; features {feats}")
        return res
    la = [ln for ln in r_pdb.pqr_text.splitlines() if ln.startswith(("ATOM", "HETATM"))]
    lb = [ln for ln in r_cif.pqr_text.splitlines() if ln.startswith(("ATOM", "HETATM"))]
    if la != lb:
        diff = next(((x, y) for x, y in zip(la + [""], lb + [""]) if x != y))
        res.bad("C10:pqr-lines-differ", f"PQR atom lines differ: {diff[0]!r} vs {diff[1]!r}")
    return res


def parts(tier):
    return [Part("diff", check, strategy=case(), budget=dict(quick=320, thorough=6000))]


def selftest():
    assert cifgen.q("O5'") == '"O5\'"' and cifgen.q("CA") == "CA" and cifgen.q("") == "."
