"""C18 - DX to cube conversion preserves the grid data."""

import io
import logging
import math
import os
import shutil
import sys

from hypothesis import strategies as st

from .. import strat
from ..core import Part, Result, scratch_dir

ID = "C18"
RULE = (
    "Generated OpenDX grids in APBS layout: nx,ny,nz in 1..14 (thorough: one axis up to 1100), "
    "origins up to +-1e4, spacings 0.05-5 A, values over 40 orders of magnitude and both signs "
    "incl. 0, 1-3 values per DX line (APBS writes 3), optional comment header / attribute trailer, "
    "0-8 PQR atoms in pdb2pqr's own layout; converted through io.read_dx + io.read_pqr + "
    "io.write_cube (1 in 8 through the dx2cube command-line function on files) and read back by "
    "an independent cube reader.  Non-trivial = value count not divisible by 6 or a dimension of 1."
)
ASSUMPTIONS = [
    "cube format: 2 comment lines, natoms+origin, 3 axis lines with signed counts, atom lines, values",
    "printed precision: origin/spacing %.6f, values 6 significant digits",
]


def _val():
    mant = strat.fl(-9.999999, 9.999999)
    return st.one_of(
        st.builds(lambda m, e: m * 10.0**e, mant, st.integers(-20, 20)),
        st.sampled_from([0.0, 1.0, -1.0, 9.999995e3, -9.999995e-7, 1e-300, 123456.5]),
    )


@st.composite
def dx_case(draw, big=False):
    if draw(st.integers(0, 9 if big else 39)) == 0:
        dims = [1, 1, 1]
        dims[draw(st.integers(0, 2))] = draw(st.integers(995, 1100))  # four-digit grid counts
    else:
        dims = [draw(st.integers(1, 14)) for _ in range(3)]
    n = dims[0] * dims[1] * dims[2]
    mode = draw(st.sampled_from(["random", "random", "index", "pattern"]))
    if mode == "random":
        vals = draw(st.lists(_val(), min_size=n, max_size=n))
    elif mode == "index":
        vals = [float(i) * 0.5 - 3.0 for i in range(n)]
    else:
        pat = draw(st.lists(_val(), min_size=1, max_size=7))
        vals = [pat[i % len(pat)] for i in range(n)]
    atoms = draw(
        st.lists(
            st.tuples(strat.fl(-99.0, 999.0), strat.fl(-99.0, 999.0), strat.fl(-99.0, 999.0),
                      strat.fl(-2.0, 2.0), strat.fl(0.0, 3.0)),  # fmt: skip
            min_size=0, max_size=8,
        )  # fmt: skip
    )
    if draw(st.integers(0, 59)) == 0:
        # more than 9999 atoms (five-digit atom count and serials in the cube header / atom block)
        na = draw(st.integers(9998, 10050))
        atoms = [(float(i % 97) + 0.125, float(i % 89) - 20.5, float(i % 83) + 3.25, ((i % 7) - 3) * 0.1, 1.0 + (i % 5) * 0.2) for i in range(na)]
    return dict(
        part="dx", dims=dims, vals=vals,
        origin=[draw(st.one_of(strat.fl(-100.0, 100.0), strat.fl(-1e4, 1e4))) for _ in range(3)],
        delta=[draw(strat.fl(0.05, 5.0)) for _ in range(3)],
        per_line=draw(st.sampled_from([3, 3, 3, 1, 2])),
        header=draw(st.booleans()), trailer=draw(st.booleans()),
        trailing_space=draw(st.booleans()),
        atoms=[list(a) for a in atoms], cli=draw(st.integers(0, 7)) == 0,
        whitespace_pqr=draw(st.booleans()),
        # other lines of a PQR file: header REMARKs, TER between groups, an END in the middle (files put
        # together with `cat protein.pqr ions.pqr`)
        pqr_extra=draw(st.lists(st.tuples(st.integers(0, 50), st.sampled_from(["REMARK   1 PQR file", "TER", "END", "END", "HEADER    X"])),
                                min_size=0, max_size=2).map(lambda x: [list(t) for t in x])),
        # non-finite grid values (APBS writes nan / inf where the potential is undefined): value tokens
        nonfinite=[[draw(st.integers(0, 10**6)), draw(st.sampled_from(["nan", "inf", "-inf", "NaN", "Infinity", "-nan"]))]
                   for _ in range(draw(st.sampled_from([0, 0, 0, 1, 3])))],
    )  # fmt: skip


def dx_text(case):
    nx, ny, nz = case["dims"]
    s = []
    if case["header"]:
        s += ["# Data from APBS", "#", "# POTENTIAL (kT/e)", "#"]
    s.append(f"object 1 class gridpositions counts {nx} {ny} {nz}")
    s.append("origin %e %e %e" % tuple(case["origin"]))
    for i in range(3):
        d = [0.0, 0.0, 0.0]
        d[i] = case["delta"][i]
        s.append("delta %e %e %e" % tuple(d))
    s.append(f"object 2 class gridconnections counts {nx} {ny} {nz}")
    s.append(f"object 3 class array type double rank 0 items {nx * ny * nz} data follows")
    vals = case["vals"]
    k = case["per_line"]
    sp = " " if case["trailing_space"] else ""
    toks = ["%e" % v for v in vals]
    for pos, tok in case.get("nonfinite", []):
        toks[pos % len(toks)] = tok
    for i in range(0, len(vals), k):
        s.append(" ".join(toks[i : i + k]) + sp)
    if case["trailer"]:
        s += [
            'attribute "dep" string "positions"',
            'object "regular positions regular connections" class field',
            'component "positions" value 1',
            'component "connections" value 2',
            'component "data" value 3',
        ]
    return "\n".join(s) + "\n"


def pqr_text(case):
    out = []
    for i, (x, y, z, q, r) in enumerate(case["atoms"]):
        if case["whitespace_pqr"]:
            out.append(f"ATOM {i + 1} CA ALA {i + 1} {x:.3f} {y:.3f} {z:.3f} {q:.4f} {r:.4f}")
        else:
            out.append(
                "ATOM  %5d  CA  ALA  %4d    %8.3f%8.3f%8.3f %7.4f %6.4f" % (i + 1, i + 1, x, y, z, q, r)
            )
    for pos, text in sorted(case.get("pqr_extra", []), reverse=True):
        out.insert(pos % (len(out) + 1), text)
    return "\n".join(out + ["TER", "END"]) + "\n"


def shape_cases():
    """EXHAUSTIVE: every grid shape with nx, ny, nz in {1, 2, 3, 4, 6, 7, 8, 12, 16, 24, 32} (products that are
    / are not multiples of 6, 1024, 4096, 6144 ...), values = running index, two PQR atoms."""
    dims = [1, 2, 3, 4, 6, 7, 8, 12, 16, 24, 32]
    out = []
    for nx in dims:
        for ny in dims:
            for nz in dims:
                out.append(dict(part="shapes", dims=[nx, ny, nz], origin=[-1.5, 2.25, 0.0], delta=[0.5, 0.25, 1.0], per_line=3,
                                header=False, trailer=(nx + ny + nz) % 2 == 0, trailing_space=False,
                                atoms=[[1.0, 2.0, 3.0, -0.5, 1.5], [4.5, 5.25, 6.125, 0.5, 1.2]], cli=False, whitespace_pqr=False))
    return out


def parse_cube(text):
    """Independent cube reader (format document)."""
    lines = text.split("\n")
    head = lines[2].split()
    natoms = int(head[0])
    origin = [float(x) for x in head[1:4]]
    counts, axes = [], []
    for i in range(3):
        w = lines[3 + i].split()
        counts.append(int(w[0]))
        axes.append([float(x) for x in w[1:4]])
    atoms = [ln.split() for ln in lines[6 : 6 + natoms]]
    body_lines = [ln for ln in lines[6 + natoms :] if ln.strip()]
    per_line = [len(ln.split()) for ln in body_lines]
    vals = [float(w) for ln in body_lines for w in ln.split()]
    return dict(natoms=natoms, origin=origin, counts=counts, axes=axes, atoms=atoms,
                values=vals, per_line=per_line, comment=lines[:2])  # fmt: skip


def _convert(case, dx, pqr):
    from pdb2pqr import io as pio
    from pdb2pqr import main as pmain

    if not case["cli"]:
        atoms = pio.read_pqr(io.StringIO(pqr))
        data = pio.read_dx(io.StringIO(dx))
        out = io.StringIO()
        pio.write_cube(out, data, atoms)
        return out.getvalue()
    d = scratch_dir()
    argv, basic = sys.argv, logging.basicConfig
    try:
        for name, text in (("in.dx", dx), ("in.pqr", pqr)):
            with open(os.path.join(d, name), "w") as fh:
                fh.write(text)
        sys.argv = ["dx2cube", os.path.join(d, "in.dx"), os.path.join(d, "in.pqr"),
                    os.path.join(d, "out.cube"), "--log-level", "ERROR"]  # fmt: skip
        logging.basicConfig = lambda **kw: None
        pmain.dx_to_cube()
        with open(os.path.join(d, "out.cube")) as fh:
            return fh.read()
    finally:
        sys.argv, logging.basicConfig = argv, basic
        shutil.rmtree(d, ignore_errors=True)


def _close6(c, v):
    """c equals v to 6 significant digits (value printed as d.dddddE+xx)."""
    if math.isnan(v) or math.isnan(c):
        return math.isnan(v) and math.isnan(c)
    if math.isinf(v) or math.isinf(c):
        return c == v
    if v == 0.0:
        return c == 0.0
    e = math.floor(math.log10(abs(v)))
    return abs(c - v) <= 5.0000001e-6 * 10.0**e + 1e-307


def check_dx(case):
    res = Result()
    if "vals" not in case:  # (shape table: running index, not stored in the case)
        case = dict(case, vals=[float(i % 1000) * 0.5 - 3.0 for i in range(case["dims"][0] * case["dims"][1] * case["dims"][2])])
    dx = dx_text(case)
    pqr = pqr_text(case)
    # what the DX text itself says (APBS prints %e): parse with plain float()
    if "vals" not in case:  # (shape table: running index, not stored in the case)
        case = dict(case, vals=[float(i % 1000) * 0.5 - 3.0 for i in range(case["dims"][0] * case["dims"][1] * case["dims"][2])])
    dxvals = [float("%e" % v) for v in case["vals"]]
    n = len(dxvals)
    for pos, tok in case.get("nonfinite", []):
        dxvals[pos % n] = float(tok)
    try:
        cube = _convert(case, dx, pqr)
    except Exception as e:  # noqa: BLE001
        res.bad(f"C18:exception:{type(e).__name__}", f"conversion raised {e!r} for dims {case['dims']}")
        return res
    try:
        c = parse_cube(cube)
    except Exception as e:  # noqa: BLE001
        res.bad("C18:cube-unreadable", f"cube not parseable: {e!r}")
        return res
    if c["counts"] != [-d for d in case["dims"]]:
        res.bad("C18:counts", f"cube counts {c['counts']} for DX counts {case['dims']}")
    org = [float("%e" % v) for v in case["origin"]]
    if any(abs(a - b) > 5.1e-7 for a, b in zip(c["origin"], org)):
        res.bad("C18:origin", f"origin {c['origin']} vs {org}")
    for i in range(3):
        exp = [0.0, 0.0, 0.0]
        exp[i] = float("%e" % case["delta"][i])
        if any(abs(a - b) > 5.1e-7 for a, b in zip(c["axes"][i], exp)):
            res.bad("C18:spacing", f"axis {i} {c['axes'][i]} vs {exp}")
    if c["natoms"] != len(case["atoms"]) or len(c["atoms"]) != len(case["atoms"]):
        res.bad("C18:atoms:count", f"{c['natoms']} atom lines for {len(case['atoms'])} PQR atoms")
    else:
        for i, (w, a) in enumerate(zip(c["atoms"], case["atoms"])):
            ok = len(w) == 5 and int(w[0]) == i + 1
            if ok:
                exp = [round(a[3], 4), round(a[0], 3), round(a[1], 3), round(a[2], 3)]
                ok = all(abs(float(x) - e) <= 5.1e-7 for x, e in zip(w[1:], exp))
            if not ok:
                res.bad("C18:atoms:content", f"atom line {w} for PQR atom {i + 1} {a}")
                break
    if len(c["values"]) != n:
        res.bad("C18:values:count", f"{len(c['values'])} values for {case['dims']} = {n}")
    else:
        for i, (cv, v) in enumerate(zip(c["values"], dxvals)):
            if not _close6(cv, v):
                # reordered or altered?
                fin = [x for x in dxvals if math.isfinite(x)]
                sig = "C18:values:order" if sorted(x for x in c["values"] if math.isfinite(x)) == sorted(
                    float(f"{x:.5E}") for x in fin) else "C18:values:changed"  # fmt: skip
                res.bad(sig, f"value #{i}: cube {cv!r} vs DX {v!r} (dims {case['dims']})")
                break
    if any(k > 6 for k in c["per_line"]):
        res.bad("C18:values:line-width", f"{max(c['per_line'])} values on one cube line")
    res.nontrivial = n % 6 != 0 or 1 in case["dims"]
    res.label(f"n%6={n % 6}", f"per_line={case['per_line']}", "cli" if case["cli"] else "func",
              "dim1" if 1 in case["dims"] else "nodim1", "big" if n >= 1000 else "small",
              f"natoms={min(len(case['atoms']), 3)}+", "non-finite-values" if case.get("nonfinite") else "finite")  # fmt: skip
    return res


def parts(tier):
    return [
        Part("dx", check_dx, strategy=dx_case(big=(tier == "thorough")),
             budget=dict(quick=3000, thorough=30000)),  # fmt: skip
        Part("shapes", check_dx, cases=shape_cases, exhaustive=True),
    ]


def selftest():
    c = parse_cube(
        "c\nc\n   1    0.000000    1.000000    2.000000\n  -2    0.500000    0.000000    0.000000\n"
        "  -1    0.000000    0.500000    0.000000\n  -1    0.000000    0.000000    0.500000\n"
        "   1    0.100000    1.000000    2.000000    3.000000\n 1.00000E+00  -2.00000E+00"
    )
    assert c["counts"] == [-2, -1, -1] and c["values"] == [1.0, -2.0] and c["natoms"] == 1
    assert _close6(1.23457e5, 123456.5) and not _close6(1.2346e5, 123456.5)
