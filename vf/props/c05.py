"""C05 - atoms added by pdb2pqr have template-consistent bonded geometry."""

import numpy as np
from hypothesis import strategies as st

from .. import e2e, geom, strat, topo
from ..core import Part, Result
from . import c04

ID = "C05"
RULE = (
    "Generated structures in ideal template geometry (every local frame pdb2pqr fits against is "
    "template-shaped): every residue type x chain position x protonation variant, heavy-only "
    "inputs (all hydrogens added), partially missing side chains (tail truncation / interior gap), "
    "missing OXT, contact placement and 'wild' torsions to trigger debumping, waters near polar "
    "atoms to trigger optimisation; options default/--noopt/--nodebump.  Oracle for every added "
    "atom X (output key not in the input): |XP| within 0.02 A of the template bond for every "
    "bonded parent P, angle(X,P,Q) within 3 deg of the template for every template neighbour Q of P "
    "in the same residue (6 deg for the ASH/GLH acid proton), X not within 0.5 A of another atom of "
    "its residue; water O-H and H-O-H as the template.  Non-trivial = >= 1 rebuilt heavy atom, or "
    ">= 1 optimisable polar hydrogen / water hydrogen placed, or a debump rotation happened."
    ' tiptable / nettable: the exhaustive tip-clash table and the directed hydrogen-bond network '
    'table (waters or a free SG with 2-3 donors, five-water clusters).  e2e also: stretched / '
    'broken peptide links with the O or C before the break missing (C: known finding), titration '
    'route (every hydrogen counts as added there), neutral termini.'
)
ASSUMPTIONS = [
    "template geometry in the XML data defines the reference bond lengths and angles",
    "tolerances 0.02 A / 3 deg calibrated on ideal-geometry inputs (measured worst 0.005 A / 0.6 deg)",
    "an interior gap (missing atom with atoms present beyond it) is a recorded known finding",
]

MODES = [[], [], [], ["--noopt"], ["--nodebump"]]
TOL_LEN = 0.02
TOL_ANG = 3.0
ACID_H = {"HD2", "HD1", "HE2", "HE1"}
POLAR_H = {"HG", "HG1", "HH", "HZ1", "HZ2", "HZ3", "HD1", "HE2", "HD2", "HE1", "HD21", "HD22",
           "HE21", "HE22", "HE", "HH11", "HH12", "HH21", "HH22", "H2", "H3", "HO"}  # fmt: skip


@st.composite
def case(draw):
    mode = draw(st.sampled_from(MODES))
    wild = draw(st.integers(0, 2)) == 0
    desc = draw(e2e.structure(max_chains=3, nmax=5, wild=wild, contact=True,
                              hyd=draw(st.sampled_from(["none", "none", None])), variants=0.3,
                              missing=draw(st.booleans())))  # fmt: skip
    if draw(st.integers(0, 3)) == 0:
        # an over-long peptide link (1.5-3 A): above PEPTIDE_DIST (1.7 A) it is a chain break and the
        # neighbour must not be used as a fitting reference
        ch0 = desc["chains"][0]
        if len(ch0["seq"]) >= 2:
            ch0["stretch"] = [[draw(st.integers(0, 5)), draw(st.sampled_from([1.5, 1.9, 2.2, 2.4, 2.9]))]]
            if draw(st.booleans()) and ch0.get("hyd", "none") == "none":
                # ... and the residue right before the stretched link lacks its carbonyl O (rebuilt from the
                # peptide frame: the residue after a BREAK must not serve as reference)
                ch0.pop("drop_spec", None)
                ch0["drop"] = [[ch0["stretch"][0][0] % (len(ch0["seq"]) - 1), draw(st.sampled_from(["O", "O", "C"]))]]
    ff = draw(st.sampled_from(strat.FFS))
    tit = e2e.draw_titration(draw, desc, 4) if mode not in (["--clean"], ["--assign-only"]) else None
    return dict(part="e2e", desc=desc, ff=ff, opts=list(mode) + e2e.neutral_opts(draw, ff, mode), wild=wild, tit=tit)


WAT = topo.RES["WAT"]["atoms"] if "WAT" in topo.RES else None


def check(case):
    c04.install_wrapper()
    res = Result()
    desc, ff, opts = case["desc"], case["ff"], case["opts"]
    del c04.CALLS[:]
    s, r = e2e.run_case(desc, ff, opts + e2e.apply_titration(desc, case.get("tit"), opts))
    ncalls = len(c04.CALLS)
    mode = " ".join(o for o in opts if not o.startswith("--neutral")) or "default"
    res.label(f"mode={mode}", "wild" if case.get("wild") else "wells")
    if not r.ok:
        res.label("run-failed")
        return res
    A = e2e.analyse(desc, ff, opts, s, r)
    n_rebuilt = n_polar = 0
    for g, names in A.inp.items():
        entry = A.by_group.get(g)
        if entry is None:
            continue
        out = {k: np.array(a.coords) for k, a in entry["atoms"].items()}
        added = [k for k in out if k not in names]
        if case.get("tit") and g[0] == "chain":
            # titration route: the input's hydrogens are stripped and every hydrogen of the result is rebuilt
            added += [k for k in out if not topo.heavy(k) and k not in added]
        if g[0] == "chain" and any(k in ("OD1", "OD2", "OE1", "OE2") for k in added):
            # carboxyl name exchange: an oxygen "not in the input" may be the supplied one under the
            # other name - added atoms are those whose POSITION was not supplied
            added = [k for k in added if not any(float(np.linalg.norm(out[k] - v)) < 1e-3 for v in names.values())]
            # ... and when the side chain was turned afterwards, the supplied oxygen is recognised by its
            # (rigidly preserved) distance to the carboxyl carbon
            for o1, o2, c_ in (("OD1", "OD2", "CG"), ("OE1", "OE2", "CD")):
                for o_in, o_other in ((o1, o2), (o2, o1)):
                    if o_in in names and o_other not in names and c_ in names and o_other in added and all(k in out for k in (o1, o2, c_)):
                        l_in = geom.dist(names[o_in], names[c_])
                        if abs(geom.dist(out[o_other], out[c_]) - l_in) < 2e-3 and abs(geom.dist(out[o_in], out[c_]) - l_in) > 2e-3:
                            # the atom now called o_other IS the supplied oxygen; the one called o_in was built
                            added = [k for k in added if k != o_other] + [o_in]
                            names = dict(names)
                            names[o_other] = names.pop(o_in)
        if g[0] == "water":
            if {"H1", "H2"} <= set(out) and "O" in out:
                n_polar += 1
                t = topo.RES["WAT"]["atoms"]
                for h in ("H1", "H2"):
                    d = geom.dist(out[h], out["O"])
                    d0 = geom.dist(t[h], t["O"])
                    if abs(d - d0) > TOL_LEN:
                        res.bad("C05:water:O-H", f"water {h}-O {d:.3f} A (template {d0:.3f})")
                a = geom.angle(out["H1"], out["O"], out["H2"])
                a0 = geom.angle(t["H1"], t["O"], t["H2"])
                # the optimiser treats water as a 4-site (2 H + 2 lone pair) model whose other
                # sites are the template O-H bond rotated by 120 deg about the first one
                c0, s0 = np.cos(np.radians(a0)), np.sin(np.radians(a0))
                a1 = float(np.degrees(np.arccos(c0 * c0 + s0 * s0 * np.cos(np.radians(120.0)))))
                if min(abs(a - a0), abs(a - a1)) > 1.0:
                    res.bad("C05:water:H-O-H", f"water H-O-H {a:.1f} deg (template sites {a0:.1f} / {a1:.1f})")
            continue
        ci, i = g[1], g[2]
        ch = desc["chains"][ci]
        rn = ch["seq"][i]
        exp = A.expected[(ci, i)]
        tmpl, bonds = exp["tmpl"], exp["bonds"]
        # real-structure windows carry non-template geometry ("distortion already present in the
        # input"): gross-error band only
        tol_len, tol_ang = (0.15, 15.0) if "window" in ch else (TOL_LEN, TOL_ANG)
        gap_here = ch.get("drop_mode") == "gap" and any(d[0] == i for d in ch.get("drop", []))
        if "window" in ch:
            # a real residue with a missing atom that has present atoms beyond it is an interior gap too
            tm = topo.RES[topo.BASE.get(rn, rn)]
            hv = {k: [b for b in v if topo.heavy(b)] for k, v in tm["bonds"].items() if topo.heavy(k)}
            dist = e2e._graph_dist(hv, "CA")
            lack = [a for a in tm["atoms"] if topo.heavy(a) and a not in names]
            gap_here = any(any(dist.get(y, 0) > dist.get(a, 0) and y in names for y in hv.get(a, [])) for a in lack)
        suffix = ":interior-gap" if gap_here else ""
        for gi_, gd_ in ch.get("stretch", []):
            if gd_ > 1.75 and gi_ % max(len(ch["seq"]) - 1, 1) == i and [i, "C"] in [list(d_) for d_ in ch.get("drop", [])]:
                # known finding: the backbone-gap test needs the C atom, so a residue that lacks its C
                # keeps the residue after the break as fitting reference
                suffix = ":missing-C-before-break"
        pos = "N-term" if i == 0 else ("C-term" if i == len(ch["seq"]) - 1 else "mid")
        # certified clash-free heavy-atom conformation of this residue (input atoms only)
        hv_in = {k: v for k, v in names.items() if topo.heavy(k)}
        from ..build import intra_residue_clash

        # certified clash-free: the supplied heavy atoms AND the rebuilt ones (their position is dictated
        # by the template, so a clash among them is a property of the input conformation)
        hv_out = {k: v for k, v in out.items() if topo.heavy(k)}
        clash_free = intra_residue_clash(hv_in, bonds, limit=2.5) is None and intra_residue_clash(hv_out, bonds, limit=2.5) is None
        swap = {"OD1": "OD2", "OD2": "OD1", "OE1": "OE2", "OE2": "OE1"}
        hswap = {"HD2": "HD1", "HD1": "HD2", "HE2": "HE1", "HE1": "HE2"} if topo.BASE.get(rn, rn) in ("ASP", "GLU") else {}
        bonds_full = {}
        for pn in ("ASH", "GLH"):
            if pn in topo.PATCH:
                bonds_full.update({k: list(v) for k, v in topo.PATCH[pn]["bonds"].items()})
        acid = topo.BASE.get(rn, rn) in ("ASP", "GLU")
        for x in added:
            if x not in tmpl:
                continue  # atom sets are C03's business
            if topo.heavy(x):
                n_rebuilt += 1
            elif x in POLAR_H:
                n_polar += 1
            for p in bonds.get(x, []):
                if topo.heavy(x) and not topo.heavy(p):
                    continue  # a bond to a hydrogen is checked from the hydrogen's side (x = H, p = its parent)
                if p not in out or p not in tmpl:
                    continue
                d = geom.dist(out[x], out[p])
                d0 = geom.dist(tmpl[x], tmpl[p])
                if acid and (x in swap or p in swap or x in hswap):
                    # the acid proton must sit on the oxygen NAMED *2 (its template parent); the
                    # optimiser may have built it from the *1 template and exchanged the names, so
                    # the other BONDED template pair is the only alternative reference
                    xs, ps = hswap.get(x, swap.get(x, x)), swap.get(p, p)
                    if xs in tmpl and ps in tmpl and ps in bonds_full.get(xs, [ps] if topo.heavy(xs) else []):
                        alt = geom.dist(tmpl[xs], tmpl[ps])
                        if abs(d - alt) < abs(d - d0):
                            d0 = alt
                # distortion already present in the input: a stretched/compressed bond of the parent
                    # shifts an atom fitted onto (parent, neighbour) by half the length difference
                ldist = 0.0
                for q in bonds.get(p, []):
                    # (the output atom called p may be the input atom called swap(p), see the name exchange)
                    for in_p in {p, swap.get(p, p)} if acid else {p}:
                        for nm_p, nm_q in ((p, q), (swap.get(p, p), swap.get(q, q))):
                            if q in names and in_p in names and nm_p in tmpl and nm_q in tmpl and topo.heavy(q):
                                ldist = max(ldist, abs(geom.dist(names[in_p], names[q]) - geom.dist(tmpl[nm_p], tmpl[nm_q])))
                if x == "O" and p == "C":
                    # the carbonyl oxygen is fitted onto (C, CA, N of the next residue): the PEPTIDE
                    # patch's N+1 pseudo-atom defines that frame, and the supplied link may differ from it
                    nxt = A.inp.get(("chain", ci, i + 1), {}).get("N")
                    if nxt is not None and "C" in names and geom.dist(names["C"], nxt) < 1.75:
                        # (beyond the peptide-link cutoff the next residue is a different fragment and
                        # must not be used as a reference: no allowance)
                        pep = topo.PATCH["PEPTIDE"]["atoms"]["N+1"]
                        ldist = max(ldist, abs(geom.dist(names["C"], nxt) - geom.dist(tmpl["C"], pep)),
                                    0.02 * abs(geom.angle(names["CA"], names["C"], nxt) - geom.angle(tmpl["CA"], tmpl["C"], pep)) if "CA" in names else 0.0)  # fmt: skip
                if x == "H" and p == "N":
                    # the amide hydrogen is fitted onto (N, CA, C of the previous residue) when they are linked
                    prv = A.inp.get(("chain", ci, i - 1), {}).get("C")
                    if prv is not None and "N" in names and geom.dist(prv, names["N"]) < 1.75:
                        pepc = topo.PATCH["PEPTIDE"]["atoms"]["C-1"]
                        ldist = max(ldist, abs(geom.dist(prv, names["N"]) - geom.dist(pepc, tmpl["N"])))
                link_distortion = ldist if (x == "H" and p == "N") or (x == "O" and p == "C") else 0.0
                if abs(d - d0) > tol_len + 0.6 * ldist:
                    kind = "heavy" if topo.heavy(x) else "hydrogen"
                    res.bad(f"C05:bond-length:{kind}{suffix}",
                            f"{rn} ({pos}, {mode}): {x}-{p} {d:.3f} A, template {d0:.3f} A")  # fmt: skip
                    continue
                tol = max(tol_ang, 6.0) if (x in ACID_H and topo.BASE.get(rn, rn) in ("ASP", "GLU")) else tol_ang
                if "window" in ch:
                    # distortion already present in the input around this parent atom
                    qs = [q for q in bonds.get(p, []) if q in names and q in tmpl and topo.heavy(q)]
                    dmax = 0.0
                    for ia in range(len(qs)):
                        for ib in range(ia + 1, len(qs)):
                            dmax = max(dmax, abs(geom.angle(names[qs[ia]], names[p], names[qs[ib]])
                                                 - geom.angle(tmpl[qs[ia]], tmpl[p], tmpl[qs[ib]])))  # fmt: skip
                    tol = tol + 1.5 * dmax
                tol = tol + 35.0 * link_distortion  # deg per A of peptide-link distortion (3-point fit)
                for q in bonds.get(p, []):
                    if q == x or q not in out or q not in tmpl:
                        continue
                    if q in added and not topo.heavy(q) and q > x:
                        continue  # H-P-H pairs once
                    a = geom.angle(out[x], out[p], out[q])
                    a0 = geom.angle(tmpl[x], tmpl[p], tmpl[q])
                    if acid and (x in swap or q in swap):
                        # the two carboxyl oxygens may carry each other's name (see C04)
                        xs, qs = swap.get(x, x), swap.get(q, q)
                        if xs in tmpl and qs in tmpl and xs != qs:
                            alt = geom.angle(tmpl[xs], tmpl[p], tmpl[qs])
                            if abs(a - alt) < abs(a - a0):
                                a0 = alt
                    if abs(a - a0) > tol:
                        kind = "heavy" if topo.heavy(x) else "hydrogen"
                        res.bad(f"C05:bond-angle:{kind}{suffix}",
                                f"{rn} ({pos}, {mode}): angle {x}-{p}-{q} {a:.1f} deg, template {a0:.1f}")  # fmt: skip
            for y, py in out.items():
                if clash_free and y != x and geom.dist(out[x], py) < 0.5:
                    res.bad(f"C05:coincide{suffix}", f"{rn} ({pos}, {mode}): added {x} is {geom.dist(out[x], py):.2f} A from {y}")
    res.nontrivial = n_rebuilt > 0 or n_polar > 0 or ncalls > 0
    res.label("rebuilt-heavy" if n_rebuilt else "no-rebuild", "polar-H" if n_polar else "no-polar-H",
              "debump-rotation" if ncalls else "no-rotation")  # fmt: skip
    return res


@st.composite
def window_case(draw):
    mode = draw(st.sampled_from(MODES))
    return dict(part="windows", desc=draw(e2e.window_structure()), ff=draw(st.sampled_from(strat.FFS)), opts=list(mode), wild=False)


def check_na(case):
    """Hydrogens added to nucleotides (template nucleotides in, so every local frame is ideal)."""
    res = Result()
    desc, ff, opts = case["desc"], case["ff"], case["opts"]
    s, r = e2e.run_case(desc, ff, opts)
    res.label(f"ff={ff}", *("dna" if x["dna"] else "rna" for x in desc["na"]))
    if not r.ok:
        res.label("run-failed")
        return res
    A = e2e.analyse(desc, ff, opts, s, r)
    norm = {"OP1": "O1P", "OP2": "O2P"}
    nadded = 0
    for meta in s.strands:
        for i, letter in enumerate(meta["seq"]):
            g = ("na", meta["index"], i)
            entry = A.by_group.get(g)
            if entry is None:
                continue
            exp = topo.expected_na(letter, meta["dna"], i == 0, i == meta["n"] - 1)
            tmpl, bonds = exp["tmpl"], exp["bonds"]
            out = {norm.get(k, k): np.array(a.coords) for k, a in entry["atoms"].items()}
            inp = {norm.get(k, k) for k in A.inp[g]}
            for x in out:
                if x in inp or x not in tmpl:
                    continue
                nadded += 1
                for p in bonds.get(x, []):
                    if p not in out or p not in tmpl:
                        continue
                    d, d0 = geom.dist(out[x], out[p]), geom.dist(tmpl[x], tmpl[p])
                    if abs(d - d0) > TOL_LEN:
                        res.bad("C05:na:bond-length", f"{exp['name']}: {x}-{p} {d:.3f} A, template {d0:.3f} A ({ff})")
                        continue
                    for q in bonds.get(p, []):
                        if q == x or q not in out or q not in tmpl or (q not in inp and q > x):
                            continue
                        a, a0 = geom.angle(out[x], out[p], out[q]), geom.angle(tmpl[x], tmpl[p], tmpl[q])
                        if abs(a - a0) > TOL_ANG:
                            res.bad("C05:na:bond-angle", f"{exp['name']}: angle {x}-{p}-{q} {a:.1f} deg, template {a0:.1f} ({ff})")
                for y, py in out.items():
                    if y != x and geom.dist(out[x], py) < 0.5:
                        res.bad("C05:na:coincide", f"{exp['name']}: added {x} is {geom.dist(out[x], py):.2f} A from {y}")
    res.nontrivial = nadded > 0
    return res


def _ideal_na(c):
    # template-exact strands: added atoms are compared with the template without a distortion budget
    for x in c["desc"]["na"]:
        x["jitter"] = 0.0
    return dict(c, part="na")


def parts(tier):
    from . import c02, c04

    return [
        Part("acidtable", check, cases=lambda: e2e.acid_table("acidtable"), exhaustive=True),
        Part("nettable", check, cases=lambda: e2e.network_cases("nettable", tier), exhaustive=True),
        Part("na", check_na, strategy=c02.na_case().map(_ideal_na), budget=dict(quick=160, thorough=3000)),
        Part("tiptable", check, cases=lambda: c04.tip_cases(tier), exhaustive=True),
        Part("e2e", check, strategy=case(), budget=dict(quick=640, thorough=12000)),
        Part("windows", check, strategy=window_case(), budget=dict(quick=240, thorough=5000)),
    ]


def selftest():
    topo.selftest()
    geom.selftest()
