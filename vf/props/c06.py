"""C06 - titration follows pKa versus pH and stays within force-field support."""

from hypothesis import strategies as st

from .. import build, e2e, ffmodel, pipeline, strat, topo
from ..core import Part, Result

ID = "C06"
RULE = (
    "table: EXHAUSTIVE decision table group {ASP GLU HIS CYS TYR LYS ARG} x position {N-terminal, "
    "internal, C-terminal} x 6 force fields x pH side {below, above, equal to pKa} x 3 contexts "
    "(1134 cells; contexts numbered from 1, 998 and 2500), the pKa source (main.run_propka) replaced by a harness function returning rows in "
    "PROPKA's row format.  random: generated chains (2-6 residues, 55 % titratable), random pKa in "
    "[0,14] (2 decimals) for 90 % of the groups, pH sweep of 3-4 increasing values incl. one equal "
    "to a pKa.  termini: N+/C- keys fed to Biomolecule.apply_pka_values directly and (known finding) "
    "through the end-to-end route.  Oracle: state == protonated iff pH < pKa, gated by the support "
    "matrix derived from the independent force-field model (state at that chain position fully "
    "parameterised); otherwise default state AND a warning naming the residue; no residue gains "
    "unassigned atoms relative to the run without titration; total charge non-increasing along the "
    "sweep.  Non-trivial = cell/case where a state switch is wanted (supported or not)."
)
ASSUMPTIONS = [
    "boundary: pH == pKa counts as deprotonated (documented >=)",
    "support matrix from vf/ffmodel.py (DAT + .names read independently)",
    "real PROPKA is sampled lightly (part 'real'); the table uses the harness pKa source",
]

TIT = ["ASP", "GLU", "HIS", "CYS", "TYR", "LYS", "ARG"]
# group -> (variant name, variant is the PROTONATED form)
PROT = {"ASP": ("ASH", True), "GLU": ("GLH", True), "HIS": ("HIP", True), "CYS": ("CYM", False),
        "TYR": ("TYM", False), "LYS": ("LYN", False), "ARG": ("AR0", False)}  # fmt: skip
PKA = {}
TERM_ROWS = {}
_installed = False


def install_fake_propka():
    global _installed
    if _installed:
        return
    import pdb2pqr.main as M
    from pdb2pqr import aa

    def fake_propka(args, biomolecule):
        rows = []
        for res in biomolecule.residues:
            if not isinstance(res, aa.Amino):
                continue
            key = (res.chain_id, res.res_seq)
            base = dict(res_num=res.res_seq, ins_code=" ", res_name=res.name, chain_id=res.chain_id,
                        group_type=None, model_pKa=0.0, buried=0.0, coupled_group=None)  # fmt: skip
            if res.name in TIT and key in PKA:
                # PROPKA's own fixed-width label: "{residue_type:<3s}{res_num:>4d}{chain_id:>2s}"
                rows.append(dict(base, group_label=f"{res.name:<3s}{res.res_seq:>4d}{res.chain_id:>2s}", pKa=PKA[key]))
            for tag in ("N+", "C-"):
                if (tag,) + key in TERM_ROWS:
                    rows.append(dict(base, group_label=f"{tag:<3s}{res.res_seq:>4d}{res.chain_id:>2s}", pKa=TERM_ROWS[(tag,) + key]))
        return rows, ""

    M.run_propka = fake_propka
    _installed = True


def supported(ff, variant, nterm, cterm, neutraln=False, neutralc=False):
    st_ = topo.expected_state(variant, nterm, cterm, neutraln, neutralc)
    name = st_["prefix"] + (st_["core"] or "HID")
    return ffmodel.supports(ff, name, st_["atoms"])


def _context(i, group, pos):
    """Deterministic context chain for a table cell."""
    fillers = [["ALA", "SER", "LEU"], ["GLY", "THR", "VAL"], ["PHE", "ASN", "MET"]][i % 3]
    if pos == "N":
        seq = [group] + fillers
    elif pos == "C":
        seq = fillers + [group]
    else:
        seq = fillers[:2] + [group] + fillers[2:]
    n = len(seq)
    return dict(id="A", start=[1, 998, 2500][i % 3], seq=seq, phi=[-70.0 - 7 * i] * n, psi=[140.0, 150.0 - 5 * i, 135.0, 145.0][:n],
                chi=[[-60.0 + 5 * i, 180.0, 60.0, 180.0, -60.0]] * n, hyd="none", oxt=True, q=[1, 0.1 * i, 0.2, 0.3], ter=True)


def table_cases():
    out = []
    for group in TIT:
        for pos in ("N", "M", "C"):
            for ff in ffmodel.FFS:
                for side in ("below", "above", "equal", "just-below", "just-above"):
                    for ctx in (0, 1, 2):
                        if side.startswith("just") and (ctx + len(group) + len(pos)) % 2:
                            continue  # the two near-pKa sides on half of the contexts
                        out.append(dict(part="table", group=group, pos=pos, ff=ff, side=side, ctx=ctx))
    return out


def _run(desc, ff, ph, pka, term=None, opts=()):
    install_fake_propka()
    PKA.clear()
    PKA.update(pka)
    TERM_ROWS.clear()
    TERM_ROWS.update(term or {})
    return e2e.run_case(desc, ff, ["--titration-state-method=propka", f"--with-ph={ph}", "--keep-chain", *opts])


def _judge(res, desc, ff, ph, pka, s, r, base_missing, ctxmsg, opts=()):
    """Compare every titrated group of a successful run with the oracle."""
    A = e2e.analyse(desc, ff, list(opts), s, r)
    neutraln, neutralc = "--neutraln" in opts, "--neutralc" in opts
    warned = " ".join(m for lvl, _n, m in r.warnings)
    wanted_any = False
    bridged = e2e.ss_from_records(s)  # cysteines in a disulfide bridge are not titrated
    for ci, ch in enumerate(desc["chains"]):
        n = len(ch["seq"])
        for i, nm in enumerate(ch["seq"]):
            key = (ch["id"], ch["start"] + i)
            entry = A.by_group.get(("chain", ci, i))
            if entry is None:
                res.bad("C06:residue-lost", f"{nm} {key} missing from the model at pH {ph} ({ff})")
                continue
            newly = sorted(k for k, a in entry["atoms"].items() if id(a) in A.missing_ids and (key, k) not in base_missing)
            if newly:
                res.bad("C06:dropped-by-titration", f"{ff} pH {ph}: {nm} {key} has unassigned atoms {newly[:4]} that the "
                        f"run without titration does not have {ctxmsg}")  # fmt: skip
            if nm not in TIT or key not in pka or (ci, i) in bridged:
                continue
            if nm == "CYS" and any(k[0] == ci for k in bridged) is False and len(A.inp) and _near_sulfur(A, ci, i):
                continue  # a second sulfur within the bonding limit: disulfide rules (C13) decide
            var, var_prot = PROT[nm]
            prot_expected = ph < pka[key]
            want_variant = prot_expected == var_prot
            nterm, cterm = i == 0, i == n - 1
            sup = supported(ff, var, nterm, cterm, neutraln, neutralc)
            wanted_any = wanted_any or want_variant
            st_ = topo.expected_state(var if (want_variant and sup) else nm, nterm, cterm, neutraln, neutralc)
            core = st_["core"] or ("HID" if "HD1" in entry["atoms"] and "HE2" not in entry["atoms"] else
                                   ("HIE" if "HE2" in entry["atoms"] and "HD1" not in entry["atoms"] else "HIP"))  # fmt: skip
            expname = st_["prefix"] + core
            got = getattr(entry["obj"], "ffname", None)
            posn = "N-terminal" if nterm else ("C-terminal" if cterm else "internal")
            if got != expname:
                if want_variant and not sup:
                    sig = "C06:unsupported-state-applied"
                elif want_variant:
                    sig = "C06:supported-switch-not-applied"
                else:
                    sig = "C06:switched-on-wrong-side"
                res.bad(sig, f"{ff} {posn} {nm}: pH {ph} vs pKa {pka[key]} -> state {got!r}, expected {expname!r} "
                        f"(variant {var} supported at this position: {sup}) {ctxmsg}")  # fmt: skip
            elif want_variant and not sup:
                tag = f"{nm} {key[1]} {key[0]}"
                if tag not in warned:
                    res.bad("C06:no-warning", f"{ff} {posn} {nm}: {var} is not supported and was skipped, but no warning "
                            f"names {tag!r} {ctxmsg}")  # fmt: skip
    return A, wanted_any


def _near_sulfur(A, ci, i):
    import numpy as np

    me = A.inp.get(("chain", ci, i), {}).get("SG")
    if me is None:
        return False
    for g, names in A.inp.items():
        if g != ("chain", ci, i) and "SG" in names and float(np.linalg.norm(names["SG"] - me)) < 2.5:
            return True
    return False


def check_table(case):
    res = Result()
    group, pos, ff, side = case["group"], case["pos"], case["ff"], case["side"]
    ch = _context(case["ctx"], group, pos)
    desc = dict(chains=[ch], waters=[])
    idx = ch["seq"].index(group) if pos != "C" else len(ch["seq"]) - 1
    key = ("A", ch["start"] + idx)
    # pKa values with more digits than any summary prints: the decision is made on the full value
    pka = {key: [6.254, 6.756, 7.2537][case["ctx"]]}
    ph = {"below": pka[key] - 1.5, "above": pka[key] + 1.5, "equal": pka[key],
          "just-below": round(pka[key] - 0.002, 4), "just-above": round(pka[key] + 0.002, 4)}[side]
    s0, r0 = e2e.run_case(desc, ff, ["--keep-chain"])
    res.label(f"ff={ff}", f"group={group}", f"pos={pos}", f"side={side}")
    if not r0.ok:
        res.label("base-run-failed")
        return res
    base_missing = {((a.residue.chain_id, a.residue.res_seq), a.name) for a in (r0.missing or [])}
    s, r = _run(desc, ff, ph, pka)
    if not r.ok:
        res.bad("C06:run-aborts", f"{ff} {group} at {pos}: titration at pH {ph} (pKa {pka[key]}) aborts the run: {r.exc_text[:100]}")
        return res
    _A, wanted = _judge(res, desc, ff, ph, pka, s, r, base_missing, "")
    res.nontrivial = wanted
    return res


# ------------------------------------------------------------------ random sweeps
@st.composite
def random_case(draw):
    n = draw(st.integers(2, 6))
    seq = [draw(st.sampled_from(TIT)) if draw(st.integers(0, 99)) < 55 else draw(strat.resname(0)) for _ in range(n)]
    ch = draw(strat.chain(cid="A", nmin=n, nmax=n, variants=0, hyd="none", oxt=True,
                          start=draw(st.sampled_from([1, 1, 27, 997, 2500]))))  # fmt: skip
    ch["seq"] = seq
    ch["ter"] = True
    # (PROPKA reports pKa values beyond the pH scale for buried / bridged groups: 1AFS has 17.7)
    pka = [[i, draw(st.one_of(st.integers(0, 14000), st.integers(0, 14000), st.integers(-4000, 19000))) / 1000.0]
           for i, nm in enumerate(seq) if nm in TIT and draw(st.integers(0, 9)) < 9]
    phs = [draw(st.one_of(st.integers(0, 1400), st.sampled_from([0, 1400, 700]))) / 100.0 for _ in range(3)]
    if pka:
        one = pka[draw(st.integers(0, len(pka) - 1))][1]
        phs.append(min(14.0, max(0.0, round(one + draw(st.sampled_from([0.0, 0.002, -0.002, 0.004, -0.004])), 4))))
    ff = draw(st.sampled_from(ffmodel.FFS + ["PARSE", "PARSE"]))
    opts = []
    if ff == "PARSE":  # neutral termini (PARSE only) combined with titration of the terminal residues
        opts = draw(st.sampled_from([[], [], ["--neutralc"], ["--neutraln"], ["--neutraln", "--neutralc"]]))
    # titration combined with the optimisation / debumping switches
    opts = opts + draw(st.sampled_from([[], [], [], ["--noopt"], ["--nodebump"], ["--nodebump", "--noopt"]]))
    if draw(st.integers(0, 3)) == 0:
        # an output naming scheme other than the parameter force field: names change, states do not
        opts = opts + ["--ffout=" + draw(st.sampled_from(ffmodel.FFS))]
    return dict(part="random", chain=ch, pka=pka, phs=sorted(set(phs)), ff=ff, opts=opts)


def check_random(case):
    res = Result()
    ch, ff = case["chain"], case["ff"]
    desc = dict(chains=[ch], waters=[])
    pka = {("A", ch["start"] + i): v for i, v in case["pka"]}
    opts = list(case.get("opts", []))
    s0, r0 = e2e.run_case(desc, ff, ["--keep-chain", *opts])
    res.label(f"ff={ff}", f"groups={min(len(pka), 3)}", "resnum>=1000" if ch["start"] + len(ch["seq"]) > 1000 else "resnum<1000", *opts)
    if not r0.ok:
        res.label("base-run-failed")
        return res
    base_missing = {((a.residue.chain_id, a.residue.res_seq), a.name) for a in (r0.missing or [])}
    prev = None
    wanted = False
    for ph in case["phs"]:
        s, r = _run(desc, ff, ph, pka, opts=opts)
        if not r.ok:
            res.bad("C06:run-aborts", f"{ff} {ch['seq']} pH {ph} pKa {case['pka']} {opts}: {r.exc_text[:100]}")
            continue
        A, w = _judge(res, desc, ff, ph, pka, s, r, base_missing, f"[seq {ch['seq']} {' '.join(opts)}]", opts)
        wanted = wanted or w
        total = sum(e["obj"].charge for e in A.residues)
        if prev is not None and total > prev[1] + 1e-6:
            res.bad("C06:charge-increases-with-pH", f"{ff} {ch['seq']}: total charge {prev[1]:+.3f} at pH {prev[0]} but "
                    f"{total:+.3f} at pH {ph} (pKa {case['pka']})")  # fmt: skip
        prev = (ph, total)
    res.nontrivial = wanted
    return res


# ------------------------------------------------------------------ termini
def termini_cases():
    out = []
    for ff in ffmodel.FFS:
        for which in ("N+", "C-"):
            for side in ("below", "above"):
                for first in ("ALA", "LYS", "PRO", "GLY"):
                    for route in ("direct", "e2e"):
                        out.append(dict(part="termini", ff=ff, which=which, side=side, first=first, route=route))
    return out


def check_termini(case):
    import io as _io

    res = Result()
    ff, which, side = case["ff"], case["which"], case["side"]
    seq = [case["first"], "SER", "LEU", case["first"]]
    ch = dict(_context(0, "ASP", "M"), seq=seq)
    n = len(seq)
    ch.update(phi=[-70.0] * n, psi=[140.0] * n, chi=[[-60.0, 180.0, 60.0, 180.0, -60.0]] * n)
    desc = dict(chains=[ch], waters=[])
    pka_v = 8.0 if which == "N+" else 3.3
    ph = pka_v - 2 if side == "below" else pka_v + 2
    resnum = 1 if which == "N+" else n
    # neutral form wanted: N-terminus at pH >= pKa, C-terminus at pH < pKa
    want_neutral = (ph >= pka_v) if which == "N+" else (ph < pka_v)
    npro = which == "N+" and case["first"] == "PRO"
    state = topo.expected_state(seq[resnum - 1], which == "N+", which == "C-", neutraln=(which == "N+"), neutralc=(which == "C-"))
    sup = ffmodel.supports(ff, state["prefix"] + state["core"], state["atoms"]) and not npro
    res.label(f"ff={ff}", which, side, case["route"], "supported" if sup else "unsupported")
    res.nontrivial = want_neutral
    patch = "NEUTRAL-NTERM" if which == "N+" else "NEUTRAL-CTERM"
    if case["route"] == "direct":
        s = build.materialise(desc)
        bio = pipeline.make_biomolecule(s.text())
        import logging

        col = pipeline._Collector()
        lg = logging.getLogger("pdb2pqr")
        lg.addHandler(col)
        try:
            bio.apply_pka_values(ff.lower(), ph, {f"{which}  {resnum:>3} A": pka_v})
        finally:
            lg.removeHandler(col)
        target = [x for x in bio.residues if x.res_seq == resnum][0]
        applied = patch in target.patches and not (npro and which == "N+")
        warned = any(which in m for _l, _n, m in col.records)
        if want_neutral and sup and not applied:
            res.bad("C06:termini:supported-not-applied", f"{ff}: {which} of {seq[resnum - 1]} at pH {ph} (pKa {pka_v}) stays charged")
        if applied and not (want_neutral and sup) and not npro:
            res.bad("C06:termini:wrongly-applied", f"{ff}: {which} neutralised (wanted {want_neutral}, supported {sup})")
        if want_neutral and not sup and not applied and not warned and not npro:
            res.bad("C06:termini:no-warning", f"{ff}: neutral {which} unsupported and skipped without a warning")
        return res
    term = {(which, "A", resnum): pka_v}
    s, r = _run(desc, ff, ph, {}, term=term)
    if not r.ok:
        res.bad("C06:run-aborts", f"{ff} termini titration aborts: {r.exc_text[:100]}")
        return res
    target = [x for x in r.bio.residues if x.res_seq == resnum][0]
    applied = patch in target.patches and not npro  # N-terminal PRO always carries the neutral patch
    if want_neutral and sup and not applied:
        res.bad("C06:termini-rows-dropped", f"{ff}: pKa source reports {which} pKa {pka_v}, pH {ph}: terminus stays charged "
                f"because the end-to-end route discards N+/C- rows")  # fmt: skip
    if applied and not (want_neutral and sup):
        res.bad("C06:termini:wrongly-applied", f"{ff}: {which} neutralised end-to-end (wanted {want_neutral}, supported {sup})")
    return res


# ------------------------------------------------------------------ real PROPKA (light)
@st.composite
def real_case(draw):
    c = draw(random_case())
    c["part"] = "real"
    c["phs"] = [2.0, 7.0, 12.5]
    return c


def check_real(case):
    """Real PROPKA as the pKa source: invariants only (monotone charge, nothing dropped)."""
    import importlib

    import pdb2pqr.main as M

    global _installed
    importlib.reload(M)  # restore the real run_propka in this process
    _installed = False
    res = Result()
    ch, ff = case["chain"], case["ff"]
    desc = dict(chains=[ch], waters=[])
    s0, r0 = e2e.run_case(desc, ff, ["--keep-chain"])
    if not r0.ok:
        res.label("base-run-failed")
        return res
    base_missing = {((a.residue.chain_id, a.residue.res_seq), a.name) for a in (r0.missing or [])}
    prev = None
    for ph in case["phs"]:
        s, r = e2e.run_case(desc, ff, ["--titration-state-method=propka", f"--with-ph={ph}", "--keep-chain"])
        if not r.ok:
            res.bad("C06:real:run-aborts", f"{ff} {ch['seq']} pH {ph} with PROPKA: {r.exc_text[:100]}")
            continue
        miss = {((a.residue.chain_id, a.residue.res_seq), a.name) for a in (r.missing or [])}
        if miss - base_missing:
            res.bad("C06:dropped-by-titration", f"{ff} {ch['seq']} pH {ph}: PROPKA titration leaves {sorted(miss - base_missing)[:3]} unassigned")
        total = sum(x.charge for x in r.bio.residues)
        if prev is not None and total > prev[1] + 1e-6:
            res.bad("C06:charge-increases-with-pH", f"{ff} {ch['seq']} (PROPKA): {prev[1]:+.3f} at pH {prev[0]}, {total:+.3f} at pH {ph}")
        prev = (ph, total)
    res.nontrivial = any(nm in TIT for nm in ch["seq"])
    res.label(f"ff={ff}")
    return res


def parts(tier):
    return [
        Part("table", check_table, cases=table_cases, exhaustive=True),
        Part("random", check_random, strategy=random_case(), budget=dict(quick=240, thorough=5000)),
        Part("termini", check_termini, cases=termini_cases, exhaustive=True),
        Part("real", check_real, strategy=real_case(), budget=dict(quick=32, thorough=400), shards=8),
    ]


def selftest():
    topo.selftest()
    ffmodel.selftest()
    assert supported("PARSE", "LYN", False, False)
    assert not supported("CHARMM", "LYN", False, False)
