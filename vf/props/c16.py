"""C16 - ligand charges conserve formal charge and stay on the ligand."""

import io
from pathlib import Path

import numpy as np
from hypothesis import strategies as st

from .. import build, colfmt, e2e, ffmodel, molgen, pipeline, strat, topo
from ..core import Part, Result

ID = "C16"
RULE = (
    "mol: MOL2 molecules from a fragment grammar over the supported atom/bond types (H, C.3, C.2, "
    "C.ar, C.1, N.3, N.4, N.ar, N.2, N.am, N.1, O.3, O.2, O.co2, F, Cl, Br, I, S.3, S.2, S.o2; bonds "
    "1, 2, 3, ar; chains, branches, aromatic and alicyclic rings, carbonyl, carboxylate in both "
    "encodings, ammonium, amide, nitrile, ...), hydrogens fill valences so every formal charge is "
    "known by construction; plus the 15 MOL2 files of the repository.  Each molecule is also written "
    "as a twin with permuted atom order, permuted bond order, swapped bond endpoints and new atom "
    "names.  Oracle: sum(charges) == sum(formal charges) (1e-6), formal_charge == construction, twin "
    "charges equal through the permutation up to exchange inside Weisfeiler-Lehman colour classes, "
    "every radius == documented table (ZAP-9 then Bondi, type before element) > 0.  complex: G1 "
    "peptide + ligand HETATM block + waters + a second hetero group with disjoint atom names, ligand "
    "atom names drawn so that they collide with water/protein names; oracle: every ligand atom "
    "written exactly once with the MOL2-derived values, every protein/water atom keeps the force "
    "field's value, unassigned list == atoms not written.  Non-trivial = charged molecule, ring, or "
    "complex with a colliding name."
    ' Rename-only twin (same order and bonds, new names, re-laid-out file: CRLF / tabs / blank line '
    'in ATOM or BOND block / trailing blanks): exact equality.  complex also: ligand alternate '
    'locations, two bound copies, titration route, serial numbers restarting, ligand residue named '
    'like a CHARMM het group.'
    ' salt: one MOL2 record with several fragments that share no bond (1-2 generated fragments + 0-3 unbonded H / halogen atoms): conservation for the record and per fragment, every connected fragment gets exactly the charges it gets as a record of its own.'
)
ASSUMPTIONS = [
    "MOL2 encodings whose formal-charge convention is ambiguous (phosphates, N.pl3 in aromatic rings, 'am' bonds) are "
    "not generated; the repo's own files cover them for conservation/permutation only",
    "the ligand's atom names are disjoint from other non-water hetero groups (CLI contract)",
]

ZAP9 = {"C": 1.87, "H": 1.10, "O.co2": 1.76, "N": 1.40, "S": 2.15, "F": 2.40, "Cl": 1.82, "I": 2.65}
BONDI = {"H": 1.20, "C": 1.70, "N": 1.55, "O": 1.52, "F": 1.47, "P": 1.80, "S": 1.80, "Cl": 1.75, "Br": 1.85, "I": 1.98}


def expected_radius(typ):
    """Documented rule: ZAP-9 first, then Bondi; most specific type before the element."""
    elem_upper = typ.split(".")[0].upper()
    for table in (ZAP9, BONDI):
        for key in (typ, elem_upper):
            if key in table:
                return table[key]
    return None


@st.composite
def mol_case(draw):
    return dict(part="mol", choices=draw(st.lists(st.integers(0, 10**6), min_size=24, max_size=80)),
                perm=draw(st.lists(st.integers(0, 10**6), min_size=16, max_size=64)),
                rename=draw(st.sampled_from(["A", "X", "digits", "collide"])))  # fmt: skip


def _twin_names(n, style, ch):
    if style == "digits":
        return [str(1000 + i) for i in ch.shuffle(n)]
    if style == "collide":
        pool = ["O", "CA", "N", "C", "H1", "H2", "CB", "OXT", "H", "HA", "SG", "OD1", "NZ"] + [f"Q{i}" for i in range(n)]
        return pool[:n]
    return [f"{style}{i}" for i in ch.shuffle(n)]


def _rename_only(n, ch):
    """New names whose lexical order is unrelated to the file order (reversed or shuffled)."""
    if ch.pick(2):
        return [f"A{999 - i:03d}" for i in range(n)]
    return [f"M{j:03d}" for j in ch.shuffle(n)]


def _read(text):
    from pdb2pqr.ligand.mol2 import Mol2Molecule

    mol = Mol2Molecule()
    mol.read(io.StringIO(text))
    return mol


def _check_molecule(res, m, tag):
    """m: molgen.Mol or None (for repo files, where only relations are checked)."""


def check_mol(case):
    res = Result()
    c = molgen.Chooser(case["choices"])
    m = molgen.random_mol(c)
    n = len(m.atoms)
    names = molgen.default_names(m)
    text = molgen.to_mol2(m, names)
    try:
        mol = _read(text)
        fc = [mol.atoms[names[i]].formal_charge for i in range(n)]
        mol.assign_parameters()
    except Exception as e:  # noqa: BLE001
        res.bad(f"C16:mol:exception:{type(e).__name__}", f"supported-type molecule rejected: {e!r} features {sorted(m.features)}")
        return res
    q = [mol.atoms[names[i]].charge for i in range(n)]
    exp_total = sum(a["formal"] for a in m.atoms)
    bad_fc = [(m.atoms[i]["type"], fc[i], m.atoms[i]["formal"]) for i in range(n) if abs(fc[i] - m.atoms[i]["formal"]) > 1e-9]
    if bad_fc:
        res.bad("C16:mol:formal-charge", f"formal charges differ from construction: {bad_fc[:3]} (features {sorted(m.features)})")
    if abs(sum(q) - exp_total) > 1e-6:
        res.bad("C16:mol:not-conserved", f"charges sum to {sum(q):.6f}, formal charges to {exp_total} (features {sorted(m.features)})")
    for i in range(n):
        r = mol.atoms[names[i]].radius
        e = expected_radius(m.atoms[i]["type"])
        if r is None or r <= 0 or e is None or abs(r - e) > 1e-9:
            res.bad("C16:mol:radius", f"{m.atoms[i]['type']}: radius {r}, documented tables give {e}")
            break
    # twin: permuted atoms, bonds, endpoints, names
    p = molgen.Chooser(case["perm"])
    order = p.shuffle(n)
    border = p.shuffle(len(m.bonds))
    flips = [p.pick(2) for _ in range(16)]
    names2 = _twin_names(n, case["rename"], p)
    try:
        mol2 = _read(molgen.to_mol2(m, names2, order, border, flips, resname="XYZ"))
        mol2.assign_parameters()
    except Exception as e:  # noqa: BLE001
        res.bad(f"C16:mol:twin-exception:{type(e).__name__}", f"permuted/renamed twin rejected: {e!r}")
        return res
    q2 = [mol2.atoms[names2[i]].charge for i in range(n)]
    if max(abs(a - b) for a, b in zip(q, q2)) > 1e-9:
        cls = molgen.wl_classes(m)
        byc = {}
        for i in range(n):
            byc.setdefault(cls[i], ([], []))
            byc[cls[i]][0].append(q[i])
            byc[cls[i]][1].append(q2[i])
        if not all(max(abs(a - b) for a, b in zip(sorted(x), sorted(y))) < 1e-9 for x, y in byc.values()):
            worst = max(abs(a - b) for a, b in zip(q, q2))
            res.bad("C16:mol:order-or-name-dependent", f"charges change by up to {worst:.2e} under atom/bond permutation and "
                    f"renaming ({case['rename']}) beyond symmetry classes; features {sorted(m.features)}")  # fmt: skip
        else:
            res.label("differs-within-symmetry-classes")
    # rename-only twin (same atom order, bonds, endpoints): charges may not depend on names AT ALL
    names3 = _rename_only(n, p)
    try:
        layout = ["plain", "crlf", "tabs", "blank-atom", "blank-bond", "trailing"][p.pick(6)]
        res.label(f"layout={layout}")
        mol3 = _read(molgen.relayout(molgen.to_mol2(m, names3), layout))
        mol3.assign_parameters()
        q3 = [mol3.atoms[names3[i]].charge for i in range(n)]
        if max(abs(a - b) for a, b in zip(q, q3)) > 1e-12:
            i = max(range(n), key=lambda k: abs(q[k] - q3[k]))
            res.bad("C16:mol:name-dependent", f"only the atom names and the file layout ({layout}) differ, yet atom #{i} ({m.atoms[i]['type']}) has charge "
                    f"{q[i]:.4f} vs {q3[i]:.4f}; features {sorted(m.features)}")  # fmt: skip
    except Exception as e:  # noqa: BLE001
        res.bad(f"C16:mol:twin-exception:{type(e).__name__}", f"renamed twin rejected: {e!r}")
    rings = bool(m.features & {"phenyl", "pyridyl", "cyclohexyl"})
    res.nontrivial = abs(exp_total) > 0 or rings
    res.label("charged" if abs(exp_total) > 0 else "neutral", "ring" if rings else "acyclic", f"rename={case['rename']}",
              "n<20" if n < 20 else ("n<50" if n < 50 else "n>=50"))  # fmt: skip
    res.sample = dict(features=sorted(m.features), mol2=text[:800])
    return res


# ------------------------------------------------------------------ records with several fragments (salts, ion pairs)
LONE = {"H": 1 - 0, "F": 7 - 6, "Cl": 7 - 6, "Br": 7 - 6, "I": 7 - 6}  # documented formula: valence - non-bonded - bond order


@st.composite
def salt_case(draw):
    return dict(part="salt", a=draw(st.lists(st.integers(0, 10**6), min_size=24, max_size=60)),
                b=draw(st.one_of(st.none(), st.lists(st.integers(0, 10**6), min_size=24, max_size=40))),
                lone=draw(st.lists(st.sampled_from(sorted(LONE)), min_size=0, max_size=3)),
                lone_first=draw(st.booleans()), perm=draw(st.lists(st.integers(0, 10**6), min_size=16, max_size=40)))  # fmt: skip


def check_salt(case):
    """One MOL2 record holding several fragments that share no bond (an ion pair, a ligand stored with
    its counter-ions): charge cannot flow between them, so every fragment keeps ITS OWN formal charge
    and gets exactly the charges it gets when it is the whole record."""
    res = Result()
    frags = [molgen.random_mol(molgen.Chooser(case["a"]), max_atoms=30)]
    if case["b"]:
        frags.append(molgen.random_mol(molgen.Chooser(case["b"]), max_atoms=20))
    lone = list(case["lone"])
    if not case["b"] and not lone:
        lone = ["Cl"]
    combo = molgen.Mol()
    owner = []  # fragment index per atom of the combined record
    blocks = ([("lone", t) for t in lone] if case["lone_first"] else []) + [("frag", k) for k in range(len(frags))] + \
             ([] if case["lone_first"] else [("lone", t) for t in lone])  # fmt: skip
    exp_frag = []
    for kind, x in blocks:
        fi = len(exp_frag)
        if kind == "lone":
            combo.add(x, float(LONE[x]))
            owner.append(fi)
            exp_frag.append(float(LONE[x]))
            continue
        m = frags[x]
        off = len(combo.atoms)
        for a in m.atoms:
            combo.add(a["type"], a["formal"])
            owner.append(fi)
        for i, j, o in m.bonds:
            combo.bond(i + off, j + off, o)
        exp_frag.append(sum(a["formal"] for a in m.atoms))
    n = len(combo.atoms)
    names = [f"Z{i}" for i in range(n)]
    p = molgen.Chooser(case["perm"])
    order = p.shuffle(n) if p.pick(2) else None
    res.label(f"fragments={len(frags)}", f"lone={len(lone)}", "permuted" if order else "block-order")
    try:
        mol = _read(molgen.to_mol2(combo, names, order))
        fc = [mol.atoms[names[i]].formal_charge for i in range(n)]
        mol.assign_parameters()
    except Exception as e:  # noqa: BLE001
        res.bad(f"C16:salt:exception:{type(e).__name__}", f"multi-fragment record rejected: {e!r}")
        return res
    q = [mol.atoms[names[i]].charge for i in range(n)]
    if any(abs(fc[i] - combo.atoms[i]["formal"]) > 1e-9 for i in range(n)):
        i = next(i for i in range(n) if abs(fc[i] - combo.atoms[i]["formal"]) > 1e-9)
        res.bad("C16:salt:formal-charge", f"{combo.atoms[i]['type']}: formal charge {fc[i]}, construction {combo.atoms[i]['formal']}")
    if abs(sum(q) - sum(exp_frag)) > 1e-6:
        res.bad("C16:salt:not-conserved", f"charges sum to {sum(q):.6f}, formal charges to {sum(exp_frag)} "
                f"({len(frags)} fragment(s) + lone atoms {lone})")  # fmt: skip
    for fi, e in enumerate(exp_frag):
        tot = sum(q[i] for i in range(n) if owner[i] == fi)
        if abs(tot - e) > 1e-6:
            res.bad("C16:salt:fragment-not-conserved", f"fragment {blocks[fi]} carries {tot:.6f}, its formal charge is {e} "
                    f"(charge moved between fragments that share no bond)")  # fmt: skip
            break
    for i in range(n):
        r = mol.atoms[names[i]].radius
        e = expected_radius(combo.atoms[i]["type"])
        if r is None or r <= 0 or e is None or abs(r - e) > 1e-9:
            res.bad("C16:salt:radius", f"{combo.atoms[i]['type']}: radius {r}, documented tables give {e}")
            break
    # each connected fragment alone
    off = 0
    for fi, (kind, x) in enumerate(blocks):
        if kind == "lone":
            off += 1
            continue
        m = frags[x]
        nm = [f"Y{i}" for i in range(len(m.atoms))]
        try:
            alone = _read(molgen.to_mol2(m, nm))
            alone.assign_parameters()
        except Exception as e:  # noqa: BLE001
            res.bad(f"C16:salt:exception:{type(e).__name__}", f"fragment alone rejected: {e!r}")
            return res
        d = max(abs(alone.atoms[nm[i]].charge - q[off + i]) for i in range(len(m.atoms)))
        if d > 1e-9:
            res.bad("C16:salt:fragment-depends-on-others", f"charges of a fragment differ by up to {d:.2e} from the charges it gets as a "
                    f"record of its own")  # fmt: skip
        off += len(m.atoms)
    res.nontrivial = True
    return res


# ------------------------------------------------------------------ repository MOL2 files under permutation
REPO_MOL2 = sorted((Path(__file__).resolve().parent.parent / "data" / "mol2").glob("*.mol2"))


def _parse_mol2(text):
    atoms, bonds, sec = [], [], None
    head = []
    for ln in text.splitlines():
        if ln.startswith("@<TRIPOS>"):
            sec = ln.strip()
            continue
        w = ln.split()
        if sec == "@<TRIPOS>ATOM" and len(w) >= 6:
            atoms.append(w)
        elif sec == "@<TRIPOS>BOND" and len(w) >= 4:
            bonds.append(w)
        elif sec == "@<TRIPOS>MOLECULE":
            head.append(ln)
    return atoms, bonds


def _write_mol2(atoms, bonds, order, border, flips, rename):
    pos = {}
    out = ["@<TRIPOS>MOLECULE", "LIG", f"{len(atoms)} {len(bonds)} 1", "SMALL", "USER_CHARGES", "", "@<TRIPOS>ATOM"]
    for k, oi in enumerate(order):
        w = atoms[oi]
        pos[w[0]] = k + 1
        out.append(f"{k + 1:7d} {rename[oi]:<6s} {float(w[2]):9.4f} {float(w[3]):9.4f} {float(w[4]):9.4f} {w[5]:<6s} 1 LIG 0.0000")
    out.append("@<TRIPOS>BOND")
    for k, bi in enumerate(border):
        w = bonds[bi]
        i, j = w[1], w[2]
        if flips[k % len(flips)]:
            i, j = j, i
        out.append(f"{k + 1:6d} {pos[i]:5d} {pos[j]:5d} {w[3]}")
    out += ["@<TRIPOS>SUBSTRUCTURE", "1 LIG 1"]
    return "\n".join(out) + "\n"


@st.composite
def repo_case(draw):
    return dict(part="repo", file=draw(st.integers(0, max(len(REPO_MOL2) - 1, 0))),
                perm=draw(st.lists(st.integers(0, 10**6), min_size=16, max_size=64)), permute_atoms=draw(st.booleans()))  # fmt: skip


def check_repo(case):
    res = Result()
    path = REPO_MOL2[case["file"] % len(REPO_MOL2)]
    text = path.read_text()
    atoms, bonds = _parse_mol2(text)
    n = len(atoms)
    try:
        mol = _read(text)
        fsum = sum(a.formal_charge for a in mol.atoms.values())
        mol.assign_parameters()
    except Exception as e:  # noqa: BLE001
        res.bad(f"C16:repo:exception:{type(e).__name__}", f"{path.name}: {e!r}")
        return res
    names = [w[1] for w in atoms]
    q = [mol.atoms[nm].charge for nm in names]
    if abs(sum(q) - fsum) > 1e-6:
        res.bad("C16:repo:not-conserved", f"{path.name}: charges sum to {sum(q):.6f}, formal charges to {fsum}")
    for nm, w in zip(names, atoms):
        e = expected_radius(w[5])
        if e is None or abs(mol.atoms[nm].radius - e) > 1e-9:
            res.bad("C16:repo:radius", f"{path.name} {w[5]}: radius {mol.atoms[nm].radius}, tables give {e}")
            break
    p = molgen.Chooser(case["perm"])
    order = p.shuffle(n) if case["permute_atoms"] else list(range(n))
    border = p.shuffle(len(bonds))
    flips = [p.pick(2) for _ in range(16)]
    rename = [f"Z{i}" for i in p.shuffle(n)]
    try:
        mol2 = _read(_write_mol2(atoms, bonds, order, border, flips, rename))
        mol2.assign_parameters()
    except Exception as e:  # noqa: BLE001
        res.bad(f"C16:repo:twin-exception:{type(e).__name__}", f"{path.name} permuted: {e!r}")
        return res
    q2 = [mol2.atoms[rename[i]].charge for i in range(n)]
    if abs(sum(q2) - sum(q)) > 1e-6:
        res.bad("C16:repo:twin-total", f"{path.name}: total charge {sum(q):.4f} -> {sum(q2):.4f} under permutation/renaming")
    elif max(abs(a - b) for a, b in zip(q, q2)) > 1e-9:
        # exchange within classes of equal (type, sorted neighbour types, ...) - WL on the parsed graph
        m = molgen.Mol()
        idx = {w[0]: i for i, w in enumerate(atoms)}
        for w in atoms:
            m.add(w[5])
        for w in bonds:
            m.bond(idx[w[1]], idx[w[2]], w[3])
        cls = molgen.wl_classes(m)
        byc = {}
        for i in range(n):
            byc.setdefault(cls[i], ([], []))
            byc[cls[i]][0].append(q[i])
            byc[cls[i]][1].append(q2[i])
        if not all(max(abs(a - b) for a, b in zip(sorted(x), sorted(y))) < 1e-9 for x, y in byc.values()):
            res.bad("C16:repo:order-or-name-dependent", f"{path.name}: charges change beyond symmetry classes under "
                    f"permutation/renaming (atoms permuted: {case['permute_atoms']})")  # fmt: skip
        else:
            res.label("differs-within-symmetry-classes")
    # rename-only twin: same order, same bonds - exact equality, symmetric atoms included
    names3 = _rename_only(n, p)
    ident = list(range(n))
    try:
        layout = ["plain", "crlf", "tabs", "blank-atom", "blank-bond", "trailing"][p.pick(6)]
        res.label(f"layout={layout}")
        mol3 = _read(molgen.relayout(_write_mol2(atoms, bonds, ident, list(range(len(bonds))), [0], names3), layout))
        mol3.assign_parameters()
        q3 = [mol3.atoms[names3[i]].charge for i in range(n)]
        if max(abs(a - b) for a, b in zip(q, q3)) > 1e-12:
            i = max(range(n), key=lambda k: abs(q[k] - q3[k]))
            res.bad("C16:repo:name-dependent", f"{path.name}: only the atom names and the file layout ({layout}) differ, yet atom #{i} ({names[i]} -> {names3[i]}) "
                    f"has charge {q[i]:.4f} vs {q3[i]:.4f}")  # fmt: skip
    except Exception as e:  # noqa: BLE001
        res.bad(f"C16:repo:twin-exception:{type(e).__name__}", f"{path.name} renamed: {e!r}")
    res.nontrivial = True
    res.label(path.name)
    return res


# ------------------------------------------------------------------ complexes
@st.composite
def complex_case(draw):
    ch = draw(strat.chain(cid="A", nmin=2, nmax=4, variants=0, oxt=True, start=1))
    ch["ter"] = True
    return dict(part="complex", chain=ch, choices=draw(st.lists(st.integers(0, 10**6), min_size=24, max_size=60)),
                naming=draw(st.sampled_from(["default", "collide", "collide"])),
                nwat=draw(st.integers(0, 3)), other=draw(st.booleans()), ff=draw(st.sampled_from(["AMBER", "PARSE", "CHARMM", "SWANSON"])),
                lig_alt=draw(st.sampled_from(["none", "none", "some", "all"])),
                copies=draw(st.sampled_from([1, 1, 2])),  # the same ligand bound twice (e.g. once per protomer)
                serials=draw(st.sampled_from(["continue", "continue", "restart"])),
                # the ligand's residue name: a het code that a built-in force field also knows (CHARMM has ADP,
                # ATP, NAD ...) must still get the MOL2-derived values on every atom
                lig_resn=draw(st.sampled_from(["LIG", "LIG", "LIG", "DRG", "ADP", "ATP", "NAD"])),  # ligand block pasted in: serials from 1 again
                tit=draw(st.sampled_from([None, None, 3.0, 7.0, 11.0])),  # titration route (hydrogens stripped and rebuilt)
                lig_first=draw(st.booleans()), opts=draw(st.sampled_from([[], ["--noopt"], ["--nodebump"], ["--whitespace"]])))  # fmt: skip


def check_complex(case):
    res = Result()
    c = molgen.Chooser(case["choices"])
    m = molgen.random_mol(c, max_atoms=30)
    n = len(m.atoms)
    if case["naming"] == "collide":
        pool = ["O", "H1", "H2", "CA", "N", "C", "CB", "OXT", "H", "HA", "OW", "O1"]
        names = (pool + [f"X{i}" for i in range(n)])[:n]
    else:
        names = molgen.default_names(m)
    lig_resn = case.get("lig_resn", "LIG")
    if lig_resn not in ("LIG", "DRG"):
        # atom names of that het group as the CHARMM parameter file spells them (the first n of them)
        dat = ffmodel.load_dat((topo.dat_dir() / "CHARMM.DAT").read_text(encoding="utf-8"))
        pool = [a for a in dat.get(lig_resn, {}) if len(a) <= 4]
        names = (pool + [f"X{i}" for i in range(n)])[:n]
    mol_text = molgen.to_mol2(m, names)
    try:
        ref = _read(mol_text)
        ref.assign_parameters()
    except Exception:  # noqa: BLE001
        res.label("ligand-rejected")
        return res
    s = build.materialise(dict(chains=[case["chain"]]))
    lig_recs = []
    shift = np.array([25.0, 25.0, 25.0])
    lig_alt = case.get("lig_alt", "none")
    grouped = []
    for i in range(n):
        rec = dict(name=names[i], resn=lig_resn, chain="L", seq=500, xyz=np.array(molgen.coords(i)) + shift,
                   rec="HETATM", group=("lig", i))  # fmt: skip
        if lig_alt == "all" or (lig_alt == "some" and i % 3 == 1):
            # alternate locations on ligand atoms: the first listed one counts, each atom is written once
            lig_recs.append(dict(rec, alt="A"))
            second = dict(rec, alt="B", xyz=rec["xyz"] + 0.3)
            if lig_alt == "all":
                grouped.append(second)  # complete second conformer listed after the first
            else:
                lig_recs.append(second)
        else:
            lig_recs.append(rec)
    lig_recs += grouped
    copies = case.get("copies", 1)
    if copies == 2:
        lig_recs += [dict(r_, chain="M", seq=501, xyz=r_["xyz"] + np.array([0.0, 18.0, 0.0]), group=("lig2", r_["group"][1]))
                     for r_ in lig_recs]  # fmt: skip
    wat_recs = [dict(name="O", resn="HOH", chain="W", seq=600 + k, xyz=np.array([40.0 + 4 * k, 10.0, 10.0]), rec="HETATM",
                     group=("water", "W", 600 + k)) for k in range(case["nwat"])]  # fmt: skip
    other = []
    if case["other"]:
        other = [dict(name="ZN9", resn="ZN9", chain="M", seq=700, xyz=np.array([60.0, 10.0, 10.0]), rec="HETATM", group=("other", 0))]
    if case.get("serials") == "restart":
        # serial numbers are labels of the input file, not identities: the ligand block restarts at 1
        for k, rec in enumerate(lig_recs):
            rec["serial"] = k + 1
        res.label("ligand-serials-restart")
    blocks = [lig_recs, wat_recs, other] if case["lig_first"] else [wat_recs, other, lig_recs]
    for blk in blocks:
        for rec in blk:
            s.add(**rec)
    opts = [f"--ff={case['ff']}", "--ligand=@DIR@/lig.mol2", "--keep-chain", *case["opts"]]
    if case.get("tit") is not None:
        from . import c06

        c06.install_fake_propka()
        c06.PKA.clear()
        c06.TERM_ROWS.clear()
        opts += ["--titration-state-method=propka", f"--with-ph={case['tit']}"]
    r = pipeline.run(s.text(), opts, extra_files={"lig.mol2": mol_text})
    collide = case["naming"] == "collide"
    res.nontrivial = collide or abs(sum(a["formal"] for a in m.atoms)) > 0
    res.label(f"ff={case['ff']}", f"naming={case['naming']}", f"waters={case['nwat']}", "other-het" if case["other"] else "no-other",
              f"ligand-altloc={lig_alt}", f"copies={copies}", f"ligand-resn={lig_resn}", "titration" if case.get("tit") is not None else "no-titration")  # fmt: skip
    if not r.ok:
        res.label("run-failed")
        res.nontrivial = False
        if case.get("tit") is not None:
            # the harness pKa source returns no rows: the titration route changes no state, so it may
            # not turn a working complex into a failing one (e.g. by stripping the ligand's hydrogens)
            r_plain = pipeline.run(s.text(), [o for o in opts if not o.startswith(("--titration", "--with-ph"))],
                                   extra_files={"lig.mol2": mol_text})  # fmt: skip
            if r_plain.ok:
                res.bad("C16:complex:fails-only-on-titration-route", f"complex runs without titration but fails with it: {r.exc_text[:120]}")
        return res
    lines = colfmt.read_pqr_text(r.pqr_text, "--whitespace" in case["opts"])
    lig_lines = [ln for ln in lines if ln["resn"] == lig_resn]
    seen = {}
    for ln in lig_lines:
        seen[ln["name"]] = seen.get(ln["name"], 0) + 1
    for i in range(n):
        cnt = seen.get(names[i], 0)
        if cnt != copies:
            res.bad("C16:complex:ligand-atom-count", f"ligand atom {names[i]} written {cnt} times for {copies} bound "
                    f"cop{'ies' if copies > 1 else 'y'} of the ligand (titration route: {case.get('tit') is not None})")  # fmt: skip
            break
    for ln in lig_lines:
        a = ref.atoms.get(ln["name"])
        if a is None:
            continue
        if abs(ln["q"] - a.charge) > 6e-5 or abs(ln["r"] - a.radius) > 6e-5:
            res.bad("C16:complex:ligand-values", f"ligand atom {ln['name']}: written q={ln['q']} r={ln['r']}, MOL2-derived "
                    f"{a.charge:.4f} {a.radius:.4f}")  # fmt: skip
            break
    model = ffmodel.builtin(case["ff"])
    wat_lines = [ln for ln in lines if ln["resn"] in ("HOH", "WAT")]
    if len(wat_lines) != 3 * case["nwat"]:
        res.bad("C16:complex:water-lines", f"{len(wat_lines)} water atom lines for {case['nwat']} waters (ligand names: {names[:6]})")
    for ln in wat_lines:
        e = model.get("WAT", {}).get(ln["name"])
        if e is None or abs(ln["q"] - e[0]) > 6e-5 or abs(ln["r"] - e[1]) > 6e-5:
            res.bad("C16:complex:water-values", f"water {ln['name']}: written q={ln['q']} r={ln['r']}, force field gives {e and e[:2]} "
                    f"(ligand has an atom named {ln['name']!r}: {ln['name'] in names})")  # fmt: skip
            break
    # protein atoms keep the force field's values (state names via the model of the run)
    for residue in r.bio.residues:
        ffname = getattr(residue, "ffname", None)
        if ffname is None or residue.name in ("LIG", "WAT", "HOH", "ZN9", lig_resn):
            continue
        tab = model.get(ffname, {})
        for a in residue.atoms:
            e = tab.get(a.name)
            if e is not None and a.ffcharge is not None and (abs(a.ffcharge - e[0]) > 1e-9 or abs(a.radius - e[1]) > 1e-9):
                res.bad("C16:complex:protein-values", f"{ffname} {a.name}: {a.ffcharge} {a.radius} vs force field {e[:2]}")
                break
    # unassigned list == atoms not written
    nmodel = sum(len(x.atoms) for x in r.bio.residues)
    miss = r.missing or []
    if len({id(a) for a in miss}) != len(miss):
        res.bad("C16:complex:unassigned-duplicates", "an atom is listed twice as unassigned")
    if nmodel - len({id(a) for a in miss}) != len(lines):
        res.bad("C16:complex:partition", f"{nmodel} model atoms, {len({id(a) for a in miss})} unassigned, {len(lines)} written")
    return res


def parts(tier):
    ps = [
        Part("mol", check_mol, strategy=mol_case(), budget=dict(quick=2400, thorough=30000)),
        Part("salt", check_salt, strategy=salt_case(), budget=dict(quick=800, thorough=10000)),
        Part("complex", check_complex, strategy=complex_case(), budget=dict(quick=240, thorough=5000)),
    ]
    if REPO_MOL2:
        ps.insert(1, Part("repo", check_repo, strategy=repo_case(), budget=dict(quick=320, thorough=3000)))
    return ps


def selftest():
    assert expected_radius("O.co2") == 1.76 and expected_radius("O.3") == 1.52 and expected_radius("Br") == 1.85
    c = molgen.Chooser([3, 1, 4, 1, 5, 9, 2, 6, 5, 3, 5, 8, 9, 7, 9])
    m = molgen.random_mol(c)
    assert len(m.atoms) >= 5 and all(len(b) == 3 for b in m.bonds)
