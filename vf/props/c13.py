"""C13 - disulfide bridges are detected symmetrically and exclusively."""

import numpy as np
from hypothesis import strategies as st

from .. import ffmodel, build, e2e, geom, pipeline, strat, topo
from ..core import Part, Result

ID = "C13"
RULE = (
    "Generated cysteine placements: 2-3 short chains, each with a CYS at a drawn position; the "
    "second (third) chain is placed so that its SG lies at a drawn distance (0.5-4 A, half of the "
    "draws within +-0.2 A of the 2.5 A limit) from the first chain's SG; plus free cysteines in the "
    "same chain; any numbering / chain ids; heavy-only and all-hydrogen inputs (thiol HG present in "
    "the input).  Oracle from the file's rounded coordinates: SG pairs mutually within the limit "
    "and within the limit of no third sulfur => both CYX (bridged parameters), no HG, partner "
    "pointers reference each other; CYS with no sulfur within the limit => HG present, not CYX.  "
    "Metamorphic: re-run with the chains written in the reverse file order - every cysteine gets "
    "the same state.  Distances within 1e-6 A of the limit are excluded; sulfurs with two partners "
    "are outside the property (counted).  Non-trivial = distance within 0.3 A of the limit, or "
    "cross-chain pair, or the reversed-order relation was exercised on a bonded pair."
    ' grid: EXHAUSTIVE S-S vector along 8 directions x distances around the limit x offsets of the '
    'pair relative to the coordinate grid.  ss also: one partner WITHOUT its SG in the input (rule '
    'applied to the rebuilt sulfur, --nodebump).  nettable: free cysteine accepting 2-3 hydrogen '
    'bonds keeps its HG.'
)
ASSUMPTIONS = ["bonding limit 2.5 A (strict <) on the coordinates as written in the file"]
LIMIT = 2.5
_t = topo.RES["CYS"]["atoms"]
CYS_CHI1 = float(geom.dihedral(_t["N"], _t["CA"], _t["CB"], _t["SG"]))


@st.composite
def case(draw):
    nch = draw(st.integers(2, 3))
    chains = []
    ids = draw(st.permutations(["A", "B", "C", "x", "3"]))
    hyd = draw(st.sampled_from(["none", "none", "all"]))
    for ci in range(nch):
        n = draw(st.integers(1, 4))
        pos = draw(st.integers(0, n - 1))
        names = [draw(strat.resname(0)) for _ in range(n)]
        names[pos] = "CYS"
        if n >= 3 and draw(st.integers(0, 3)) == 0:
            names[(pos + 2) % n] = "CYS"  # a second, free cysteine in the same chain
        ch = draw(strat.chain(cid=ids[ci], nmin=n, nmax=n, hyd=hyd, oxt=True, start=draw(st.sampled_from([1, 40, -2, 900]))))
        ch["seq"] = names
        ch["ter"] = True
        ch["cys"] = pos
        ch.pop("extra", None)  # (runs with undefined atoms and nothing to repair fail: not this property)
        if ci > 0:
            if ci == 1:
                d = draw(st.one_of(strat.fl(2.3, 2.7), strat.fl(2.3, 2.7), strat.fl(0.8, 4.0), strat.fl(1.9, 2.2),
                                   st.sampled_from([2.499, 2.501, 2.5, 2.03, 2.04])))  # fmt: skip
            else:  # third sulfur: mostly beyond the limit of both (inside the property)
                d = draw(st.one_of(strat.fl(2.6, 6.0), strat.fl(2.6, 6.0), strat.fl(2.5, 2.8), strat.fl(1.5, 2.5)))
            tgt = draw(st.integers(0, ci - 1)) if ci == 2 else 0
            ch["ss_to"] = dict(chain=tgt, res=chains[tgt]["cys"], own=pos, d=d, tilt=draw(strat.unit_dir()),
                               tiltw=0.3 if ci == 1 else 3.0)
        chains.append(ch)
    opts = draw(st.sampled_from([[], [], ["--noopt"], ["--nodebump"]]))
    drop_sg = False
    if hyd == "none" and draw(st.integers(0, 3)) == 0:
        # the second chain's cysteine comes WITHOUT its SG: the sulfur is rebuilt (at the template's chi1)
        # and the bridge rule applies to the rebuilt position; without debumping nothing moves it later
        drop_sg = True
        opts = ["--nodebump"] + [o for o in opts if o == "--noopt"]
        c1 = chains[1]
        c1["chi"] = [list(x) for x in c1["chi"]]
        c1["chi"][c1["cys"]][0] = CYS_CHI1
        c1.pop("shuffle", None)
        c1.pop("extra", None)
    return dict(part="ss", desc=dict(chains=chains), ff=draw(st.sampled_from(strat.FFS)), opts=opts, drop_sg=drop_sg)


def _classify(A, desc):
    """(chain, res) -> observed (core state, has HG, partner group)."""
    out = {}
    for ci, ch in enumerate(desc["chains"]):
        for i, rn in enumerate(ch["seq"]):
            if rn != "CYS":
                continue
            entry = A.by_group.get(("chain", ci, i))
            if entry is None:
                continue
            obj = entry["obj"]
            partner = getattr(obj, "ss_bonded_partner", None)
            pg = None
            if partner is not None:
                for g, e in A.by_group.items():
                    if e["obj"] is partner.residue:
                        pg = g
                        if e["atoms"].get("SG") is not partner:
                            pg = ("not-SG",) + tuple(g)
            ffname = getattr(obj, "ffname", "")
            core = "CYX" if ffname.endswith("CYX") else ("CYM" if ffname.endswith("CYM") else "CYS")
            out[(ci, i)] = (core, "HG" in entry["atoms"], pg)
    return out


def check(case):
    res = Result()
    desc, ff, opts = case["desc"], case["ff"], case["opts"]
    e2e.normalise(desc, opts)
    s = build.materialise(desc)
    dropped_key = None
    if case.get("drop_sg"):
        c1 = desc["chains"][1]
        idx = next(k for k, rec in enumerate(s.records) if rec["name"] == "SG" and rec["group"] == ("chain", 1, c1["cys"]))
        del s.records[idx]
        s.ters = {t - 1 if t > idx else t for t in s.ters}
        dropped_key = (1, c1["cys"])
        res.label("SG-missing-in-input")
        # the rebuilt sulfur's position is pdb2pqr's own: read it from a first run
        r0 = pipeline.run(s.text(), [f"--ff={ff}", *opts])
        if not r0.ok:
            res.label("run-failed")
            return res
        A0 = e2e.analyse(desc, ff, opts, s, r0)
        e0 = A0.by_group.get(("chain",) + dropped_key)
        if e0 is None or "SG" not in e0["atoms"]:
            res.bad("C13:rebuilt-SG-missing", f"CYS {dropped_key}: SG absent from the input was not rebuilt")
            return res
    sg = {}
    for rec in s.records:
        if rec["name"] == "SG":
            sg[(rec["group"][1], rec["group"][2])] = rec["xyz"]
    if dropped_key is not None:
        sg[dropped_key] = np.array(e0["atoms"]["SG"].coords)
    keys = sorted(sg)
    partners = {k: [] for k in keys}
    borderline = False
    near = False
    for a in keys:
        for b in keys:
            if a < b:
                d = geom.dist(sg[a], sg[b])
                if abs(d - LIMIT) < 1e-6:
                    borderline = True
                elif d < LIMIT:
                    partners[a].append(b)
                    partners[b].append(a)
                if abs(d - LIMIT) < 0.3:
                    near = True
    res.label(f"ff={ff}", "near-limit" if near else "far-from-limit")
    if borderline:
        res.label("excluded-borderline")
        return res
    args = [f"--ff={ff}", *opts]
    r = pipeline.run(s.text(), args)
    if not r.ok:
        res.label("run-failed")
        return res
    A = e2e.analyse(desc, ff, opts, s, r)
    obs = _classify(A, desc)
    bonded_pair = False
    for k in keys:
        if k not in obs:
            continue
        core, has_hg, pg = obs[k]
        p = partners[k]
        if len(p) == 1 and partners[p[0]] == [k]:
            bonded_pair = True
            d = geom.dist(sg[k], sg[p[0]])
            if core != "CYX":
                res.bad("C13:bridge-not-detected", f"CYS {k}: SG-SG {d:.3f} A to {p[0]} only, but state {core} ({ff})")
            if has_hg:
                res.bad("C13:bridged-keeps-HG", f"CYS {k}: bridged (SG-SG {d:.3f} A) but thiol hydrogen present")
            if pg != ("chain",) + tuple(p[0]):
                res.bad("C13:partner-pointer", f"CYS {k}: partner reference {pg}, expected SG of {p[0]}")
            # "treated as bridged" includes the parameters: the sulfur and its carbon carry the force field's
            # values for the bridged state wherever the (pinned) support matrix says the force field has them
            entry = A.by_group.get(("chain",) + tuple(k))
            if entry is not None and core == "CYX":
                gold = ffmodel.golden_support().get(ff, {}).get(getattr(entry["obj"], "ffname", ""), [])
                lost = [nm for nm in ("SG", "CB") if nm in gold and nm in entry["atoms"] and id(entry["atoms"][nm]) in A.missing_ids]
                if lost:
                    res.bad("C13:bridged-unparameterised", f"CYS {k} in state {entry['obj'].ffname} ({ff}): bridged, but {lost} carry no "
                            f"parameters although the force field defines them")  # fmt: skip
        elif not p:
            if core == "CYX":
                res.bad("C13:false-bridge", f"CYS {k}: no sulfur within {LIMIT} A but treated as bridged ({ff})")
            elif not has_hg and core == "CYS":
                res.bad("C13:free-cys-without-HG", f"CYS {k}: free cysteine written without thiol hydrogen")
        else:
            res.label("multi-partner(outside)")
    # order independence: same coordinates, chains written in reverse order
    order = list(range(len(desc["chains"])))[::-1]
    r2 = pipeline.run(s.text(chain_order=order), args)
    if r2.ok:
        A2 = e2e.analyse(desc, ff, opts, s, r2)
        obs2 = _classify(A2, desc)
        for k in keys:
            if k in obs and k in obs2 and obs[k] != obs2[k] and len(partners[k]) <= 1:
                res.bad("C13:order-dependent", f"CYS {k}: {obs[k]} in file order, {obs2[k]} with chains reversed")
    else:
        res.bad("C13:order-dependent:run", f"reversed chain order fails: {r2.exc_text[:100]}")
    res.nontrivial = near or bonded_pair or bool(case.get("net"))  # (network table: a free SG accepting 2-3 hydrogen bonds)
    res.label("bonded-pair" if bonded_pair else "no-bond")
    return res


def grid_cases(tier="quick"):
    """Placement grid: S-S vector along +-x, +-y, +-z and two diagonals x distance around the limit x
    position of the pair relative to the coordinate grid (offsets along the S-S axis in 0.4 A steps:
    any neighbour-search cell structure is straddled in every way)."""
    out = []
    dirs = [[1, 0, 0], [-1, 0, 0], [0, 1, 0], [0, -1, 0], [0, 0, 1], [0, 0, -1], [1, 1, 0], [1, -1, 1]]
    dists = [2.05, 2.3, 2.45, 2.55] if tier == "quick" else [1.95, 2.05, 2.15, 2.25, 2.35, 2.45, 2.49, 2.51, 2.6, 3.0]
    offs = [0.0, 0.4, 0.8, 1.2, 1.6] if tier == "quick" else [0.2 * k for k in range(26)]
    k = 0
    for dv in dirs:
        for d in dists:
            for off in offs:
                k += 1
                n = len(dv)
                a = dict(id="A", start=1, seq=["GLY", "CYS", "GLY"], phi=[-70.0] * 3, psi=[140.0, 135.0, 145.0],
                         chi=[[-60.0, 180.0, 60.0, 180.0, -60.0]] * 3, hyd="none", oxt=True, q=[1, 0, 0, 0], ter=True, cys=1,
                         shift=[off * dv[0], off * dv[1], off * dv[2]])  # fmt: skip
                b = dict(id="B", start=11, seq=["CYS", "GLY"], phi=[-65.0] * 2, psi=[150.0, 140.0], chi=[[60.0, 180.0, 60.0, 180.0, -60.0]] * 2,
                         hyd="none", oxt=True, q=[1, 0.3, 0.1, 0.2], ter=True, cys=0,
                         ss_to=dict(chain=0, res=1, own=0, d=d, dir=dv))  # fmt: skip
                out.append(dict(part="grid", desc=dict(chains=[a, b]), ff=["AMBER", "PARSE", "CHARMM"][k % 3], opts=[["--nodebump"], []][k % 2]))
    return out


def parts(tier):
    return [
        Part("nettable", check, cases=lambda: e2e.network_cases("nettable", tier, only="cys"), exhaustive=True),
        Part("grid", check, cases=lambda: grid_cases(tier), exhaustive=True),
        Part("ss", check, strategy=case(), budget=dict(quick=400, thorough=8000)),
    ]


def selftest():
    topo.selftest()
