"""C15 - rigid-body fitting reproduces exact placements; torsion setting exact."""

import numpy as np
from hypothesis import strategies as st

from .. import build, geom, pipeline, strat, topo
from ..core import Part, Result

ID = "C15"
RULE = (
    "fit: 3-5 template points (triangle area >= 0.08 A^2 by construction, edges 0.8-5 A) "
    "+ probe atom, random proper rotation/translation/offset up to 1e4 A and a second rigid "
    "motion for equivariance; chi: axis/points/angle in [-720,720]; dihedral: quadruples with "
    "both bond angles in [5,175] deg; torsion: G1 peptide (all hydrogens, random residue/"
    "position/rigid pose) -> Debump.set_dihedral_angle(target) on a drawn chi; tetra: "
    "Residue.rotate_tetrahedral on a drawn bond.  Non-trivial = non-planar point set or "
    "angle not a multiple of 90 or offset > 100 A (fit/chi/dihedral); a torsion change of "
    "> 1 deg on a residue with >= 1 moving atom (torsion/tetra).  distinct = case hash."
    ' fit-special: EXHAUSTIVE symmetric axis-aligned reference sets x exact special rotations '
    '(identity, half/quarter turns, 120 deg) x translations.  torsion: explicit oracle (atoms '
    'beyond the axis bond = Rodrigues rotation by the measured angle, all others unmoved), also '
    'small steps relative to the present angle, up to 900 A from the origin.'
    ' fit: arguments handed over as lists, tuples or float arrays must be unchanged by the call and a second placement from the same objects must agree.  torsion: 1-4 successive requests for the same torsion (through 0 / 360 / 180), each must be met.'
)
ASSUMPTIONS = [
    "oracle: numpy rotation matrices from unit quaternions, Rodrigues formula, atan2 dihedral",
    "tolerances from the property statement: 1e-6 A placement, 0.05 deg torsion, 1e-9 A rigidity",
]


def _R(q):
    return geom.quat_to_rot(q)


# ------------------------------------------------------------------ fit
@st.composite
def fit_case(draw):
    p0 = draw(strat.vec(3.0))
    l1 = draw(strat.fl(0.8, 5.0))
    l2 = draw(strat.fl(0.8, 5.0))
    a = draw(strat.fl(15.0, 165.0))
    frame = draw(strat.quat())
    extra = draw(st.lists(strat.vec(5.0), min_size=0, max_size=2))
    probe = draw(strat.vec(4.0))
    big = st.sampled_from([0.0, 1.0, 100.0, 1.0e4])
    return dict(
        part="fit", p0=p0, l1=l1, l2=l2, a=a, frame=frame, extra=extra, probe=probe,
        q=draw(strat.quat()), t=draw(strat.vec(1.0)), tscale=draw(big),
        off=draw(strat.vec(1.0)), oscale=draw(big),
        q2=draw(strat.quat()), t2=draw(strat.vec(50.0)),
        # how the caller hands the coordinates over (nested lists, tuples, numpy arrays) - and the same
        # objects are used for a second placement afterwards
        argtype=draw(st.sampled_from(["list", "list", "tuple", "ndarray", "ndarray"])),
    )  # fmt: skip


def _as(argtype, arr):
    if argtype == "ndarray":
        return np.array(arr, dtype=float)
    if argtype == "tuple":
        return tuple(tuple(float(v) for v in row) for row in np.atleast_2d(arr)) if np.ndim(arr) > 1 else tuple(float(v) for v in arr)
    return np.asarray(arr, dtype=float).tolist()


def fit_points(case):
    F = _R(case["frame"])
    p0 = np.array(case["p0"])
    a = np.radians(case["a"])
    P = [p0, p0 + F @ np.array([case["l1"], 0, 0]),
         p0 + F @ (case["l2"] * np.array([np.cos(a), np.sin(a), 0]))]  # fmt: skip
    P += [p0 + np.array(e) for e in case["extra"]]
    return np.array(P)


def check_fit(case):
    from pdb2pqr import quatfit

    res = Result()
    P = fit_points(case)
    off = np.array(case["off"]) * case["oscale"]
    P = P + off
    probe = np.array(case["probe"]) + P[0]
    R = _R(case["q"])
    t = np.array(case["t"]) * case["tscale"]
    Q = (R @ P.T).T + t
    at = case.get("argtype", "list")
    a_ref, a_def, a_probe = _as(at, Q), _as(at, P), _as(at, probe)
    got = np.array(quatfit.find_coordinates(len(P), a_ref, a_def, a_probe))
    exp = R @ probe + t
    err = float(np.linalg.norm(got - exp))
    # the caller's coordinates belong to the caller: unchanged by the call, and a second placement from
    # the very same objects gives the same atom
    if not (np.array_equal(np.asarray(a_ref, float), Q) and np.array_equal(np.asarray(a_def, float), P)
            and np.array_equal(np.asarray(a_probe, float), probe)):
        res.bad("C15:fit:arguments-modified", f"find_coordinates changed the coordinates it was given ({at} arguments)")
    else:
        again = np.array(quatfit.find_coordinates(len(P), a_ref, a_def, a_probe))
        if float(np.linalg.norm(again - got)) > 1e-9:
            res.bad("C15:fit:second-placement", f"a second placement from the same {at} arguments lands {np.linalg.norm(again - got):.3g} A away")
    res.label(f"args={at}")
    mirror = None
    if err > 1e-6:
        # diagnose a mirror image: reflect through the plane of the first three points
        n = np.cross(Q[1] - Q[0], Q[2] - Q[0])
        n /= np.linalg.norm(n)
        mir = exp - 2 * np.dot(exp - Q[0], n) * n
        mirror = float(np.linalg.norm(got - mir)) < 1e-4
        res.bad(
            "C15:fit:" + ("mirror" if mirror else "placement"),
            f"placed atom off by {err:.3g} A (n={len(P)}, |t|={np.linalg.norm(t):.3g})",
        )
    R2 = _R(case["q2"])
    t2 = np.array(case["t2"])
    Q2 = (R2 @ Q.T).T + t2
    got2 = np.array(quatfit.find_coordinates(len(P), Q2.tolist(), P.tolist(), probe.tolist()))
    err2 = float(np.linalg.norm(got2 - (R2 @ got + t2)))
    if err2 > 1e-6:
        res.bad("C15:fit:equivariance", f"result does not move with the structure ({err2:.3g} A)")
    planar = len(P) == 3 or np.linalg.matrix_rank(P - P.mean(0), tol=1e-6) < 3
    res.nontrivial = (not planar) or max(case["oscale"], case["tscale"]) >= 100
    res.label(f"n={len(P)}", "planar" if planar else "nonplanar",
              f"tscale={case['tscale']:g}", f"oscale={case['oscale']:g}")  # fmt: skip
    return res


# ------------------------------------------------------------------ fit: special geometries (exhaustive)
_SPECIAL_SETS = {
    "isosceles": [[-1, 0, 0], [1, 0, 0], [0, 2, 0]],
    "right-triangle": [[0, 0, 0], [1.5, 0, 0], [0, 2, 0]],
    "rhombus": [[-2, 0, 0], [2, 0, 0], [0, 1, 0], [0, -1, 0]],
    "axis-cross": [[1, 0, 0], [-1, 0, 0], [0, 1.5, 0], [0, -1.5, 0], [0, 0, 2], [0, 0, -2]],
    "square": [[1, 1, 0], [-1, 1, 0], [-1, -1, 0], [1, -1, 0]],
    "tetrahedron": [[1, 1, 1], [1, -1, -1], [-1, 1, -1], [-1, -1, 1]],
    "scalene-3d": [[0, 0, 0], [1.25, 0, 0], [0.5, 1.75, 0], [0.25, 0.5, 1.5]],
}
_SPECIAL_ROTS = {
    "identity": [[1, 0, 0], [0, 1, 0], [0, 0, 1]],
    "half-x": [[1, 0, 0], [0, -1, 0], [0, 0, -1]],
    "half-y": [[-1, 0, 0], [0, 1, 0], [0, 0, -1]],
    "half-z": [[-1, 0, 0], [0, -1, 0], [0, 0, 1]],
    "quarter-x": [[1, 0, 0], [0, 0, -1], [0, 1, 0]],
    "quarter-y": [[0, 0, 1], [0, 1, 0], [-1, 0, 0]],
    "quarter-z": [[0, -1, 0], [1, 0, 0], [0, 0, 1]],
    "third-111": [[0, 0, 1], [1, 0, 0], [0, 1, 0]],
    "half-110": [[0, 1, 0], [1, 0, 0], [0, 0, -1]],
}


def special_fit_cases():
    """Symmetric, axis-aligned reference sets x exact special rotations (identity, half / quarter
    turns, 120 deg about the body diagonal) x translations x offsets of the reference set: the
    configurations in which the quaternion eigenproblem is degenerate or already diagonal."""
    out = []
    for sname in _SPECIAL_SETS:
        for rname in _SPECIAL_ROTS:
            for t in ([0.0, 0.0, 0.0], [1.0, 2.0, 3.0], [10.5, -3.25, 7.0]):
                for off in ([0.0, 0.0, 0.0], [4.0, -2.0, 0.5]):
                    for probe in ([0.5, 0.25, 1.0], [0.0, 0.0, 1.5]):
                        out.append(dict(part="fit-special", pts=sname, rot=rname, t=t, off=off, probe=probe))
    return out


def check_fit_special(case):
    from pdb2pqr import quatfit

    res = Result()
    P = np.array(_SPECIAL_SETS[case["pts"]], float) + np.array(case["off"])
    R = np.array(_SPECIAL_ROTS[case["rot"]], float)
    t = np.array(case["t"])
    probe = np.array(case["probe"]) + np.array(case["off"])
    Q = (R @ P.T).T + t
    at = case.get("argtype", "list")
    a_ref, a_def, a_probe = _as(at, Q), _as(at, P), _as(at, probe)
    got = np.array(quatfit.find_coordinates(len(P), a_ref, a_def, a_probe))
    exp = R @ probe + t
    err = float(np.linalg.norm(got - exp))
    # the caller's coordinates belong to the caller: unchanged by the call, and a second placement from
    # the very same objects gives the same atom
    if not (np.array_equal(np.asarray(a_ref, float), Q) and np.array_equal(np.asarray(a_def, float), P)
            and np.array_equal(np.asarray(a_probe, float), probe)):
        res.bad("C15:fit:arguments-modified", f"find_coordinates changed the coordinates it was given ({at} arguments)")
    else:
        again = np.array(quatfit.find_coordinates(len(P), a_ref, a_def, a_probe))
        if float(np.linalg.norm(again - got)) > 1e-9:
            res.bad("C15:fit:second-placement", f"a second placement from the same {at} arguments lands {np.linalg.norm(again - got):.3g} A away")
    res.label(f"args={at}")
    planar = np.linalg.matrix_rank(P - P.mean(0), tol=1e-6) < 3
    if err > 1e-6:
        ok_mirror = False
        if planar:
            # for a planar reference set the mirror image through its plane is an equally exact fit only
            # if the probe lies IN the plane; off-plane probes must keep their hand
            n_ = np.cross(Q[1] - Q[0], Q[2] - Q[0])
            ok_mirror = abs(float(np.dot(exp - Q[0], n_))) < 1e-9
        if not ok_mirror:
            res.bad("C15:fit-special:placement", f"{case['pts']} under {case['rot']} + t={case['t']}: placed atom off by {err:.4g} A")
    res.nontrivial = True
    res.label(f"set={case['pts']}", f"rot={case['rot']}", "planar" if planar else "nonplanar")
    return res


# ------------------------------------------------------------------ chi
@st.composite
def chi_case(draw):
    axis_dir = draw(strat.quat())
    return dict(
        part="chi", axis_q=axis_dir, axis_len=draw(strat.fl(0.5, 3.0)),
        pts=draw(st.lists(strat.vec(6.0), min_size=1, max_size=6)),
        angle=draw(st.one_of(strat.fl(-720.0, 720.0),
                             st.sampled_from([0.0, 90.0, -90.0, 180.0, -180.0, 360.0, 20.0, 1e-3]))),
    )  # fmt: skip


def check_chi(case):
    from pdb2pqr import quatfit

    res = Result()
    axis = _R(case["axis_q"]) @ np.array([case["axis_len"], 0, 0])
    pts = np.array(case["pts"])
    got = np.array(quatfit.qchichange(axis.tolist(), pts.tolist(), case["angle"]))
    exp = geom.rodrigues(pts, axis, case["angle"])
    err = float(np.abs(got - exp).max())
    if err > 1e-9 * max(1.0, float(np.abs(pts).max())):
        other = float(np.abs(got - geom.rodrigues(pts, axis, -case["angle"])).max())
        res.bad("C15:chi:" + ("handedness" if other < 1e-8 else "rotation"),
                f"rotation about axis off by {err:.3g} A at angle {case['angle']}")  # fmt: skip
    res.nontrivial = abs(case["angle"]) % 90 > 1e-6
    res.label("multiple-of-90" if not res.nontrivial else "generic-angle")
    return res


# ------------------------------------------------------------------ dihedral
@st.composite
def dihedral_case(draw):
    return dict(
        part="dihedral", l=[draw(strat.fl(0.8, 3.0)) for _ in range(3)],
        a1=draw(strat.fl(5.0, 175.0)), a2=draw(strat.fl(5.0, 175.0)),
        tor=draw(st.one_of(strat.fl(-180.0, 180.0),
                           st.sampled_from([0.0, 180.0, -180.0, 90.0, -90.0, 1e-4, 179.9999]))),
        q=draw(strat.quat()), t=draw(strat.vec(1.0)), tscale=draw(st.sampled_from([1.0, 100.0, 1e4])),
    )  # fmt: skip


def dihedral_points(case):
    a = np.array([0.3, 1.0, 0.2])
    b = np.zeros(3)
    a = b + case["l"][0] * np.array(
        [np.cos(np.radians(case["a1"])), np.sin(np.radians(case["a1"])), 0.0]
    )
    c = np.array([case["l"][1], 0.0, 0.0])
    # angle(a,b,c)=a1 by construction; place d by NeRF
    d = geom.nerf(a, b, c, case["l"][2], case["a2"], case["tor"])
    P = np.array([a, b, c, d])
    return (_R(case["q"]) @ P.T).T + np.array(case["t"]) * case["tscale"]


def check_dihedral(case):
    from pdb2pqr import utilities as util

    res = Result()
    P = dihedral_points(case)
    got = float(util.dihedral(*P.tolist()))
    exp = geom.dihedral(*P)
    if geom.angdiff(got, exp) > 0.05 or geom.angdiff(got, case["tor"]) > 0.05:
        res.bad("C15:dihedral:measure", f"dihedral {got} vs {exp} (constructed {case['tor']})")
    res.nontrivial = abs(case["tor"]) % 90 > 1e-3
    res.label(f"tscale={case['tscale']:g}")
    return res


# ------------------------------------------------------------------ torsion
TORSION_RES = [r for r in topo.AA20 if build.side_chain_dihedrals(r)]


@st.composite
def torsion_case(draw):
    n = draw(st.integers(1, 3))
    ch = draw(strat.chain(nmin=n, nmax=n, hyd="all", oxt=True, start=draw(st.sampled_from([1, -5, 120])),
                          names=st.sampled_from(TORSION_RES)))  # fmt: skip
    ch["ter"] = True
    ch["shift"] = [x * draw(st.sampled_from([1.0, 100.0, 900.0])) for x in draw(strat.vec(1.0))]
    return dict(
        part="torsion", chain=ch, res=draw(st.integers(0, n - 1)), which=draw(st.integers(0, 7)),
        target=draw(st.one_of(strat.fl(-180.0, 180.0), strat.fl(-720.0, 720.0),
                              st.sampled_from([0.0, 180.0, -180.0, 90.0]))),
        # the debumper turns in small steps: a request RELATIVE to the present angle
        rel=draw(st.sampled_from([None, None, 5.0, -5.0, 1.0, -0.5, 0.1])),
        # further requests for the same torsion afterwards (the debumper tries angle after angle)
        then=draw(st.lists(st.one_of(st.sampled_from([0.0, 0.0, 360.0, -360.0, 180.0, -180.0, 60.0, -60.0]), strat.fl(-180.0, 180.0)),
                           min_size=0, max_size=3)),
        # ... or for ANOTHER listed torsion of the residue in between (offsets into its torsion list)
        then_which=draw(st.lists(st.sampled_from([0, 0, 1, 2]), min_size=3, max_size=3)),
    )  # fmt: skip


def _setup_debumper(case):
    from pdb2pqr import cells, debump
    from pdb2pqr.config import CELL_SIZE

    s = build.materialise(dict(chains=[case["chain"]]))
    bio = pipeline.make_biomolecule(s.text())
    deb = debump.Debump(bio)
    deb.cells = cells.Cells(CELL_SIZE)
    deb.cells.assign_cells(bio)
    bio.calculate_dihedral_angles()
    bio.update_internal_bonds()
    bio.set_reference_distance()
    return s, bio, deb


def check_torsion(case):
    res = Result()
    s, bio, deb = _setup_debumper(case)
    residue = bio.residues[case["res"] % len(bio.residues)]
    base = topo.BASE.get(residue.name, residue.name)
    names = residue.reference.dihedrals
    heavy_idx = [i for i, d in enumerate(names) if topo.heavy(d.split()[3]) and
                 all(residue.has_atom(x) for x in d.split())]  # fmt: skip
    if not heavy_idx:
        res.label("no-torsion")
        return res
    k = heavy_idx[case["which"] % len(heavy_idx)]
    quad = names[k].split()
    before = {a.name: np.array(a.coords) for a in residue.atoms}
    old = geom.dihedral(*(before[x] for x in quad))
    if case.get("rel") is not None:
        case = dict(case, target=old + case["rel"])
    deb.set_dihedral_angle(residue, k, case["target"])
    after = {a.name: np.array(a.coords) for a in residue.atoms}
    new = geom.dihedral(*(after[x] for x in quad))
    if geom.angdiff(new, case["target"]) > 0.05:
        res.bad("C15:torsion:angle",
                f"{base} {names[k]}: requested {case['target']}, measured {new:.4f}")  # fmt: skip
    rec = residue.dihedrals[k]
    if geom.angdiff(rec, new) > 0.05:
        res.bad("C15:torsion:recorded", f"{base} {names[k]}: recorded {rec} but measured {new}")
    moved = [n for n in before if np.linalg.norm(before[n] - after[n]) > 1e-9]
    for ax in quad[1:3]:
        if ax in moved:
            res.bad("C15:torsion:axis-moved", f"{base} {names[k]}: axis atom {ax} moved")
    for n in before:
        for ax in quad[1:3]:
            d0 = np.linalg.norm(before[n] - before[ax])
            d1 = np.linalg.norm(after[n] - after[ax])
            if abs(d0 - d1) > 1e-9 * max(1.0, d0):
                res.bad("C15:torsion:axis-distance",
                        f"{base} {names[k]}: |{n}-{ax}| {d0:.6f} -> {d1:.6f}")  # fmt: skip
                break
    # explicit oracle: the atoms beyond the axis bond (template bond graph) are the Rodrigues rotation of
    # their old positions about the axis by (target - old); every other atom stays where it was
    ch = case["chain"]
    ri = case["res"] % len(bio.residues)
    st_ = topo.expected_state(ch["seq"][ri], ri == 0, ri == len(ch["seq"]) - 1)
    side = topo.far_side(st_["bonds"], quad[1], quad[2])
    if side is not None:
        # (the angle actually applied is MEASURED - its agreement with the request is checked above at
        # 0.05 deg; here every atom must have turned by that same angle, or not at all)
        delta = ((new - old + 180.0) % 360.0) - 180.0
        for n in before:
            if n in (quad[1], quad[2]) or n not in st_["bonds"]:
                continue
            if n in side:
                want = geom.rot_about([before[n]], before[quad[1]], before[quad[2]], delta)[0]
            else:
                want = before[n]
            err = float(np.linalg.norm(after[n] - want))
            if err > 2e-6 * max(1.0, float(np.linalg.norm(before[n]))):
                res.bad("C15:torsion:placement", f"{base} {names[k]} by {delta:.3f} deg: {n} is {err:.2e} A from where the rigid "
                        f"rotation puts it (|r| = {np.linalg.norm(before[n]):.0f} A)")  # fmt: skip
                break
    if len(moved) > 1:
        M0 = np.array([before[n] for n in moved])
        M1 = np.array([after[n] for n in moved])
        D0 = np.linalg.norm(M0[:, None] - M0[None], axis=-1)
        D1 = np.linalg.norm(M1[:, None] - M1[None], axis=-1)
        if np.abs(D0 - D1).max() > 1e-9 * max(1.0, D0.max()):
            res.bad("C15:torsion:not-rigid", f"{base} {names[k]}: moved set deformed")
    # the same torsion is set again and again: every request counts, whatever the angle it starts from
    prev = after
    k0 = k
    for step, tgt in enumerate(case.get("then", []), 2):
        off = (case.get("then_which") or [0, 0, 0])[(step - 2) % 3]
        k = heavy_idx[(heavy_idx.index(k0) + off) % len(heavy_idx)]
        quad = names[k].split()
        deb.set_dihedral_angle(residue, k, tgt)
        cur = {a.name: np.array(a.coords) for a in residue.atoms}
        got = geom.dihedral(*(cur[x] for x in quad))
        if geom.angdiff(got, tgt) > 0.05:
            res.bad("C15:torsion:sequence-angle", f"{base} {names[k]}: request #{step} for {tgt} (coming from "
                    f"{geom.dihedral(*(prev[x] for x in quad)):.4f}) left the torsion at {got:.4f}")  # fmt: skip
            break
        if geom.angdiff(residue.dihedrals[k], got) > 0.05:
            res.bad("C15:torsion:recorded", f"{base} {names[k]}: recorded {residue.dihedrals[k]} but measured {got} after request #{step}")
            break
        for n in cur:
            for ax in quad[1:3]:
                d0 = np.linalg.norm(prev[n] - prev[ax])
                d1 = np.linalg.norm(cur[n] - cur[ax])
                if abs(d0 - d1) > 1e-8 * max(1.0, d0):
                    res.bad("C15:torsion:axis-distance", f"{base} {names[k]}: |{n}-{ax}| {d0:.6f} -> {d1:.6f} after request #{step}")
                    break
        prev = cur
    k = k0
    res.nontrivial = geom.angdiff(old, case["target"]) > 1.0 and len(moved) >= 1
    res.label(f"res={base}", f"chi#{heavy_idx.index(k) + 1}", f"requests={1 + len(case.get('then', []))}",
              "terminal" if (residue.is_n_term or residue.is_c_term) else "internal")  # fmt: skip
    return res


# ------------------------------------------------------------------ tetrahedral rotation
@st.composite
def tetra_case(draw):
    c = draw(torsion_case())
    c["part"] = "tetra"
    c["angle"] = draw(st.one_of(strat.fl(-360.0, 360.0), st.sampled_from([20.0, 120.0, 180.0])))
    return c


def check_tetra(case):
    from pdb2pqr.residue import Residue

    res = Result()
    s, bio, deb = _setup_debumper(case)
    residue = bio.residues[case["res"] % len(bio.residues)]
    # pick a bond (a1 -> a2) where a2 carries further atoms: as Alcoholic/Water use it
    pairs = []
    for a2 in residue.atoms:
        for a1 in a2.bonds:
            if a1.residue is residue and len(a2.bonds) > 1 and topo.heavy(a1.name) and topo.heavy(a2.name):
                pairs.append((a1, a2))
    if not pairs:
        res.label("no-bond")
        return res
    a1, a2 = pairs[case["which"] % len(pairs)]
    movers = [a for a in a2.bonds if a is not a1]
    before = {id(a): np.array(a.coords) for a in bio.atoms}
    exp = geom.rot_about([before[id(a)] for a in movers], before[id(a1)], before[id(a2)], case["angle"])
    Residue.rotate_tetrahedral(a1, a2, case["angle"])
    for a, e in zip(movers, exp):
        err = float(np.linalg.norm(np.array(a.coords) - e))
        if err > 1e-8 * max(1.0, float(np.abs(e).max())):
            res.bad("C15:tetra:rotation", f"{residue.name} {a1.name}-{a2.name}: {a.name} off by {err:.3g}")
    for a in bio.atoms:
        if a in movers:
            continue
        if np.linalg.norm(np.array(a.coords) - before[id(a)]) > 0:
            res.bad("C15:tetra:other-moved", f"{residue.name} {a1.name}-{a2.name}: {a.name} moved")
    res.nontrivial = abs(case["angle"]) % 360 > 1.0 and len(movers) >= 1
    res.label(f"movers={len(movers)}")
    return res


def parts(tier):
    return [
        Part("fit", check_fit, strategy=fit_case(), budget=dict(quick=12000, thorough=120000)),
        Part("fit-special", check_fit_special, cases=special_fit_cases, exhaustive=True),
        Part("chi", check_chi, strategy=chi_case(), budget=dict(quick=8000, thorough=60000)),
        Part("dihedral", check_dihedral, strategy=dihedral_case(), budget=dict(quick=8000, thorough=60000)),
        Part("torsion", check_torsion, strategy=torsion_case(), budget=dict(quick=800, thorough=8000)),
        Part("tetra", check_tetra, strategy=tetra_case(), budget=dict(quick=400, thorough=4000)),
    ]  # fmt: skip


def selftest():
    geom.selftest()
    topo.selftest()
    build.selftest()
