"""CLI:  /venv/bin/python -m vf.run <ID> --tier quick|thorough [--replay FILE]

exit 0: property held on everything explored (known findings are printed)
exit 1: `VIOLATION property=<id> replay=<path>` printed for an unlisted violation
exit 2: harness error (never a violation)
"""

import argparse
import importlib
import logging
import os
import sys
import traceback


def main(argv=None):
    ap = argparse.ArgumentParser()
    ap.add_argument("prop")
    ap.add_argument("--tier", default=os.environ.get("VERIF_TIER", "quick"))
    ap.add_argument("--replay")
    ap.add_argument("--seed", type=int, default=None)
    ns = ap.parse_args(argv)
    if ns.tier not in ("quick", "thorough"):
        ns.tier = "quick"
    if os.environ.get("PYTHONHASHSEED") != "0" and not os.environ.get("VF_KEEP_HASHSEED"):
        env = dict(os.environ, PYTHONHASHSEED="0")
        os.execve(sys.executable, [sys.executable, "-m", "vf.run", *sys.argv[1:]], env)
    os.environ.setdefault("ELECTROSTATICS_PDB2PQR_VERIF", "1")
    try:
        seed = ns.seed if ns.seed is not None else int(os.environ.get("VERIF_SEED", "1") or 1)
    except ValueError:
        seed = 1
    # pdb2pqr is chatty: INFO is switched off, warnings go to harness collectors only
    logging.getLogger().addHandler(logging.NullHandler())
    logging.getLogger("pdb2pqr").setLevel(logging.WARNING)
    logging.getLogger("propka").setLevel(logging.ERROR)
    try:
        from . import core

        mod = importlib.import_module(f"vf.props.{ns.prop.lower()}")
        return core.run_property(mod, ns.tier, seed, ns.replay)
    except SystemExit:
        raise
    except BaseException:  # noqa: BLE001
        traceback.print_exc()
        print(f"HARNESS-ERROR property={ns.prop}")
        return 2


if __name__ == "__main__":
    sys.exit(main())
