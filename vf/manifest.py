"""Regenerate /verif/MANIFEST.json from the per-property table below.

    /venv/bin/python -m vf.manifest

A property is claimed iff vf/props/<id>.py exists and it is listed in CLAIMED.
"""

import json
from pathlib import Path

VERIF = Path(__file__).resolve().parent.parent
PY = "/venv/bin/python"

# id -> (technique, level text, level note, design ref)
TABLE = {
    "C01": (
        "exhaustive table enumeration + Hypothesis-generated user force-field file pairs and structures vs independent DAT/.names model",
        "The complete (force field x residue state x atom) lookup table of all six built-in force fields is enumerated "
        "against an independent re-implementation of the documented DAT + .names resolution; generated user .DAT/.names "
        "pairs with construction-known truth; generated structures end-to-end (hidden chain ends, --ligand complexes with "
        "foreign hetero groups): every written atom's charge/radius must be the model's value for its final state, atoms "
        "without an entry must be omitted and reported; the residue/atom naming map is pinned (one direction).",
        "Trusts the data files as the definition of the parameters (read independently with ElementTree/str.split) and "
        "the documented .names semantics.",
        "DESIGN.md section 5, C01",
    ),
    "C02": (
        "property-based testing: generated sequences/structures, formal-charge oracle from explicit chemistry rules",
        "Exhaustive state table (32 input names x 3 chain positions x 6 force fields, PARSE with neutral termini) plus "
        "generated multi-chain / hidden-end / mmCIF / cyclic / nucleic inputs; residue net charges compared with "
        "chemistry-derived formal charges, termini counted per constructed chain end.",
        "Trusts the case descriptor (what the generator built) and the chemistry table in vf/topo.py.",
        "DESIGN.md section 5, C02",
    ),
    "C03": (
        "property-based testing: generated structures x option combinations, atom-conservation oracle",
        "Every input heavy atom (incl. undefined extra atoms, alternative names, hidden chain ends, every mode) is tracked "
        "into the final model; model = written U unassigned; written atom sets compared with the independently composed "
        "topology of the final state; exhaustive --ffout table (same atoms, no duplicate names).",
        "Trusts the XML templates as definition of atom sets (read independently) and captured warning records.",
        "DESIGN.md section 5, C03",
    ),
    "C04": (
        "property-based testing: generated contact/clash structures, rigid-fragment superposition oracle",
        "Contact-mode and real-window structures plus an exhaustive directed tip-clash table (every residue type x tip x "
        "gap x atom order x mode, also on the titration route) that provoke debumping and flips; input atoms matched by "
        "key; backbone fixed, every rigid side-chain fragment must superpose with RMSD <= 1e-5 A, det=+1.",
        "Trusts numpy SVD superposition and the template bond graph for fragment definition.",
        "DESIGN.md section 5, C04",
    ),
    "C05": (
        "property-based testing: generated structures with missing atoms, template bond length/angle oracle",
        "Added atoms (hydrogens, rebuilt heavy atoms, water hydrogens) compared with template bond lengths/angles of the "
        "final state (generated structures, real windows, nucleic strands, tip-clash table, stretched / broken links); "
        "attachment checked after debump/optimisation.",
        "Trusts template geometry in the XML files; tolerances calibrated on ideal-geometry inputs.",
        "DESIGN.md section 5, C05",
    ),
    "C06": (
        "exhaustive decision table (group x position x force field x pH side) in generated contexts + random pH/pKa",
        "pKa source replaced by harness-supplied rows; final states compared with pH<pKa gated by the support matrix "
        "derived from the force-field model (five pH sides incl. 0.002 next to a many-digit pKa; neutral-termini and "
        "opt/debump switches in the random part); monotone total charge along pH sweeps.",
        "Trusts the force-field model's support matrix; real PROPKA only sampled.",
        "DESIGN.md section 5, C06",
    ),
    "C07": (
        "property-based testing / structured fuzzing of PDB text layout vs independent fixed-column reader",
        "Generated layout mutations (blank lines, CRLF, unknown records, TER/END/MODEL bookkeeping, alt-locs, icodes, "
        "short lines, column content, odd MODEL lines) over generated structures with strands (old atom names) and undefined "
        "hetero groups; ingested atoms compared as multisets with an independent column reader.",
        "Trusts the wwPDB column layout as implemented in vf/colfmt.py.",
        "DESIGN.md section 5, C07",
    ),
    "C08": (
        "property-based round-trip testing of PQR serialisation (fixed columns, whitespace tokens, pdb2pqr's own reader)",
        "Generated atom field tuples at width boundaries written through the real writer and read back by independent "
        "column/token readers and io.read_pqr; run level: file vs returned model for generated structures (PDB and mmCIF "
        "input, --ffout, --clean) under all flag combinations.",
        "Trusts the PQR/PDB column conventions; overflow of fixed columns recorded as known findings.",
        "DESIGN.md section 5, C08",
    ),
    "C09": (
        "metamorphic property-based testing: option subsets over generated structures",
        "Base run vs optioned run: atom order, coordinate/charge/radius substrings byte-identical; drop-water equals "
        "deleting waters; neutral termini shift total charge by the constructed count.",
        "Trusts the descriptor for which termini exist.",
        "DESIGN.md section 5, C09",
    ),
    "C10": (
        "differential property-based testing: one descriptor written as PDB and as mmCIF",
        "Independent mmCIF writer; results of both encodings compared atom by atom; both pdbx missing-value conventions.",
        "Only the installed pdbx version plus an emulated older convention are covered.",
        "DESIGN.md section 5, C10",
    ),
    "C11": (
        "stateful property-based testing (Hypothesis rule-based machine) over run histories + fresh-process references",
        "Histories of successful and failing runs in one process; every run's bytes compared with references produced in "
        "fresh processes under 9 hash seeds; one directory per history (stale output in place); pool with exactly tied "
        "hydrogen-bond networks, user force fields, mmCIF, ligand, failing runs.",
        "Samples hash seeds and histories; single-threaded code so schedules are not a dimension.",
        "DESIGN.md section 5, C11",
    ),
    "C12": (
        "property-based testing + generated fault injection at every processing stage",
        "Success side: complete generated residues x covering force fields must run; failure side: malformed inputs and "
        "injected stage faults (exhaustive stage x exception x call x output-state enumeration; exhaustive malformed-input "
        "table incl. mmCIF rows and size-dependent tolerances) must raise and leave the output path untouched.",
        "Stage list derived from main_driver/non_trivial; secondary outputs out of scope.",
        "DESIGN.md section 5, C12",
    ),
    "C13": (
        "property-based testing: generated cysteine pair placements, distance oracle, permutation metamorphic relation",
        "S-S distances around the 2.5 A limit, same/different chains, both file orders; symmetric CYX state, partner "
        "pointers, thiol hydrogen presence; invariance under chain/file order permutation; axis/offset placement grid; a "
        "partner whose SG is missing from the input (rule applied to the rebuilt sulfur).",
        "Distances within 1e-6 of the limit excluded.",
        "DESIGN.md section 5, C13",
    ),
    "C14": (
        "stateful property-based testing (Hypothesis rule-based machine) of the cell map vs brute-force model",
        "Histories of add/remove/move on Cells(2|5) with boundary-seeking coordinates; after every step an all-pairs "
        "brute-force comparison; plus pipeline-level audit of neighbour queries during real runs (generated structures, "
        "real windows, titration route): ghosts, misses, one-shot results, registration invariant.",
        "Cutoffs <= cell size as in every caller.",
        "DESIGN.md section 5, C14",
    ),
    "C15": (
        "property-based testing (Hypothesis): generated rigid motions / torsion requests vs numpy oracle",
        "Generated search over point sets, rotations, translations, offsets, angles and real template "
        "residues; every case compared with an independent numpy oracle (R p + t, Rodrigues, atan2) at "
        "the tolerances of the statement.  Exploration, not proof: evidence is bounded by the generator.",
        "Trusts numpy linear algebra and the harness' construction of non-degenerate point sets.",
        "DESIGN.md section 5, C15",
    ),
    "C16": (
        "property-based testing: MOL2 fragment grammar with construction-known formal charges; permutation/renaming metamorphic relations",
        "Generated molecules: charge conservation, name independence, order dependence only within Weisfeiler-Lehman "
        "classes (rename-only twin: exact), radii from the documented tables; complexes (alt-locs, two bound copies, "
        "titration route): ligand parameters only on ligand atoms, each once.",
        "Trusts the fragment grammar's valence bookkeeping for formal charges.",
        "DESIGN.md section 5, C16",
    ),
    "C17": (
        "property-based testing: generated atom clouds / sizing parameters vs bounding-box oracle; metamorphic header/layout invariance",
        "Generated clouds written by pdb2pqr's own writer in both layouts with injected header/comment lines; enclosure, "
        "legality (32k+1 >= 33), fine<=coarse, memory estimate, printed report, and the --apbs-input path end-to-end.",
        "Printed values define the spheres; cfac >= 1, fadd >= 0.",
        "DESIGN.md section 5, C17",
    ),
    "C18": (
        "property-based round-trip testing: generated OpenDX grids -> cube, independent cube reader",
        "Generated grids (any shape incl. counts not divisible by 3/6), values over 40 orders of magnitude, atom lists; "
        "cube read back by an independent reader and compared value by value in order.",
        "Trusts the cube/OpenDX format descriptions.",
        "DESIGN.md section 5, C18",
    ),
}

NOT_YET = "check not built yet in this revision (planned, see DESIGN.md section 5)"


def build():
    props = [json.loads(ln) for ln in (VERIF / "properties.jsonl").read_text().splitlines() if ln.strip()]
    checks = []
    na = []
    for p in props:
        pid = p["id"]
        if pid in TABLE and (VERIF / "vf" / "props" / f"{pid.lower()}.py").exists():
            tech, text, note, ref = TABLE[pid]
            checks.append(
                dict(
                    property_id=pid,
                    quick_cmd=f"{PY} -m vf.run {pid} --tier quick",
                    thorough_cmd=f"{PY} -m vf.run {pid} --tier thorough",
                    evidence_file=f"/verif/evidence/{pid}.json",
                    replay_cmd_template=f"{PY} -m vf.run {pid} --replay {{path}}",
                    engine="vf",
                    level_claimed=dict(category="exploration", text=text, design_ref=ref),
                    level_note=note,
                    technique=tech,
                )
            )
        else:
            na.append(dict(property_id=pid, reason=NOT_YET))
    man = dict(
        version=1,
        setup_cmd=(
            f'{PY} -c "import hypothesis, numpy" || {PY} -m pip install --no-index '
            "--find-links /opt/veriftools/wheels hypothesis numpy"
        ),
        hooks=dict(
            guard="ELECTROSTATICS_PDB2PQR_VERIF",
            enable="no source hooks: checks import /repo's working tree (editable install in /venv) "
            "and observe through public functions and harness-side wrappers",
            baseline_off_cmd=(
                "cd /repo && env -u ELECTROSTATICS_PDB2PQR_VERIF /venv/bin/python -m pytest -ra -q "
                "-p no:cacheprovider --timeout=900 --continue-on-collection-errors"
            ),
            source_commits=[],
            add_only=True,
        ),
        engines=[
            dict(
                name="vf",
                path="/verif/vf",
                serves_properties=[c["property_id"] for c in checks],
                kind_free_text="Hypothesis-driven sharded campaigns (collect-then-shrink), "
                "exhaustive enumeration for finite tables, independent oracles",
            )
        ],
        checks=checks,
        notes="All checks: cwd=/verif, VERIF_SEED honoured, exit 2 = harness error. "
        "known_findings.json lists recorded genuine defects (known) and repaired ones (fixed).",
        not_applicable=na,
    )
    (VERIF / "MANIFEST.json").write_text(json.dumps(man, indent=1) + "\n")
    return man


if __name__ == "__main__":
    m = build()
    print(f"{len(m['checks'])} checks claimed, {len(m['not_applicable'])} not claimed")
