"""Regenerate /verif/MANIFEST.json from the per-property table below.

    /venv/bin/python -m vf.manifest

A property is claimed iff vf/props/<id>.py exists and it is listed in CLAIMED.
"""

import json
from pathlib import Path

VERIF = Path(__file__).resolve().parent.parent
PY = "/venv/bin/python"

# id -> (technique, level text, level note, design ref)
TABLE = {
    "C15": (
        "property-based testing (Hypothesis): generated rigid motions / torsion requests vs numpy oracle",
        "Generated search over point sets, rotations, translations, offsets, angles and real template "
        "residues; every case compared with an independent numpy oracle (R p + t, Rodrigues, atan2) at "
        "the tolerances of the statement.  Exploration, not proof: evidence is bounded by the generator.",
        "Trusts numpy linear algebra and the harness' construction of non-degenerate point sets.",
        "DESIGN.md section 5, C15",
    ),
}

NOT_YET = "check not built yet in this revision (planned, see DESIGN.md section 5)"


def build():
    props = [json.loads(ln) for ln in (VERIF / "properties.jsonl").read_text().splitlines() if ln.strip()]
    checks = []
    na = []
    for p in props:
        pid = p["id"]
        if pid in TABLE and (VERIF / "vf" / "props" / f"{pid.lower()}.py").exists():
            tech, text, note, ref = TABLE[pid]
            checks.append(
                dict(
                    property_id=pid,
                    quick_cmd=f"{PY} -m vf.run {pid} --tier quick",
                    thorough_cmd=f"{PY} -m vf.run {pid} --tier thorough",
                    evidence_file=f"/verif/evidence/{pid}.json",
                    replay_cmd_template=f"{PY} -m vf.run {pid} --replay {{path}}",
                    engine="vf",
                    level_claimed=dict(category="exploration", text=text, design_ref=ref),
                    level_note=note,
                    technique=tech,
                )
            )
        else:
            na.append(dict(property_id=pid, reason=NOT_YET))
    man = dict(
        version=1,
        setup_cmd=(
            f'{PY} -c "import hypothesis, numpy" || {PY} -m pip install --no-index '
            "--find-links /opt/veriftools/wheels hypothesis numpy"
        ),
        hooks=dict(
            guard="ELECTROSTATICS_PDB2PQR_VERIF",
            enable="no source hooks: checks import /repo's working tree (editable install in /venv) "
            "and observe through public functions and harness-side wrappers",
            baseline_off_cmd=(
                "cd /repo && env -u ELECTROSTATICS_PDB2PQR_VERIF /venv/bin/python -m pytest -ra -q "
                "-p no:cacheprovider --timeout=900 --continue-on-collection-errors"
            ),
            source_commits=[],
            add_only=True,
        ),
        engines=[
            dict(
                name="vf",
                path="/verif/vf",
                serves_properties=[c["property_id"] for c in checks],
                kind_free_text="Hypothesis-driven sharded campaigns (collect-then-shrink), "
                "exhaustive enumeration for finite tables, independent oracles",
            )
        ],
        checks=checks,
        notes="All checks: cwd=/verif, VERIF_SEED honoured, exit 2 = harness error. "
        "known_findings.json lists recorded genuine defects (known) and repaired ones (fixed).",
        not_applicable=na,
    )
    (VERIF / "MANIFEST.json").write_text(json.dumps(man, indent=1) + "\n")
    return man


if __name__ == "__main__":
    m = build()
    print(f"{len(m['checks'])} checks claimed, {len(m['not_applicable'])} not claimed")
