"""O2 - independent topology model read from PINNED copies of AA.xml / NA.xml / PATCHES.xml.

Only xml.etree is used; none of pdb2pqr's definition classes.  The *data* files
define the templates (trusted); the chemistry of the terminal / protonation
states is stated here as explicit rules.
"""

import xml.etree.ElementTree as ET
from pathlib import Path

import numpy as np

from .geom import angle as _angle
from .geom import dist as _dist


def dat_dir() -> Path:
    import pdb2pqr

    return Path(pdb2pqr.__file__).resolve().parent / "dat"


def _atoms(node):
    atoms, bonds, alts = {}, {}, {}
    for a in node.findall("atom"):
        n = a.findtext("name").strip()
        atoms[n] = np.array([float(a.findtext(k)) for k in "xyz"])
        bonds[n] = [b.text.strip() for b in a.findall("bond")]
        for alt in a.findall("altname"):
            alts[alt.text.strip()] = n
    return atoms, bonds, alts


def xml_dir() -> Path:
    """PINNED copies of the topology XML files (taken from the repaired tree): the oracle's
    definition of templates, atom sets and patches does not follow edits of the repository's data
    files, so such edits show up as violations of the properties they break."""
    return Path(__file__).resolve().parent / "data" / "dat"


def _load():
    res = {}
    d = xml_dir()
    for fn in ("AA.xml", "NA.xml"):
        for r in ET.parse(d / fn).getroot().findall("residue"):
            name = r.findtext("name").strip()
            atoms, bonds, alts = _atoms(r)
            res[name] = dict(
                atoms=atoms,
                bonds=bonds,
                alts=alts,
                dihedrals=[x.text.strip() for x in r.findall("dihedral")],
                kind="aa" if fn == "AA.xml" else "na",
            )
    patches = {}
    for p in ET.parse(d / "PATCHES.xml").getroot().findall("patch"):
        name = p.findtext("name").strip()
        add = p.find("add")
        atoms, bonds, alts = _atoms(add) if add is not None else ({}, {}, {})
        patches[name] = dict(
            atoms=atoms,
            bonds=bonds,
            alts=alts,
            applyto=(p.findtext("applyto") or "").strip(),
            remove=[x.text.strip() for x in p.findall("remove")],
            dihedrals=[
                x.text.strip() for x in (add.findall("dihedral") if add is not None else [])
            ],
        )
    return res, patches


RES, PATCH = _load()

AA20 = [
    "ALA", "ARG", "ASN", "ASP", "CYS", "GLN", "GLU", "GLY", "HIS", "ILE",
    "LEU", "LYS", "MET", "PHE", "PRO", "SER", "THR", "TRP", "TYR", "VAL",
]  # fmt: skip
VARIANTS = ["ASH", "CYM", "GLH", "HID", "HIE", "HIP", "HSD", "HSE", "HSP", "LYN", "TYM", "AR0"]
BASE = {
    "HID": "HIS", "HIE": "HIS", "HIP": "HIS", "HSD": "HIS", "HSE": "HIS", "HSP": "HIS",
    "ASH": "ASP", "GLH": "GLU", "CYM": "CYS", "CYX": "CYS", "LYN": "LYS", "TYM": "TYR",
    "AR0": "ARG",
}  # fmt: skip
# formal charge of a side chain in a given final state (chemistry, not data)
SIDE_CHARGE = dict(ARG=1, LYS=1, HIP=1, ASP=-1, GLU=-1, CYM=-1, TYM=-1)
BACKBONE = ("N", "CA", "C", "O")


def heavy(name: str) -> bool:
    """Hydrogen test on a canonical atom name (H..., or digit+H as in 1HB)."""
    n = name.lstrip("0123456789")
    return not n.startswith("H")


def compose(base, patchnames):
    """(atoms, bonds) of residue `base` after applying patches in order."""
    t = RES[base]
    atoms = {k: v.copy() for k, v in t["atoms"].items()}
    bonds = {k: list(v) for k, v in t["bonds"].items()}
    for pn in patchnames:
        p = PATCH[pn]
        for a, xyz in p["atoms"].items():
            atoms[a] = xyz.copy()
            bonds[a] = list(p["bonds"][a])
            for b in p["bonds"][a]:
                if b in bonds and a not in bonds[b]:
                    bonds[b].append(a)
        for r in p["remove"]:
            if r in atoms:
                del atoms[r]
                for b in bonds.pop(r, []):
                    if b in bonds and r in bonds[b]:
                        bonds[b].remove(r)
    for pseudo in ("N+1", "C-1"):
        atoms.pop(pseudo, None)
        bonds.pop(pseudo, None)
    for k in bonds:
        bonds[k] = [b for b in bonds[k] if b in atoms]
    return atoms, bonds


def expected_state(name, nterm, cterm, neutraln=False, neutralc=False, ss=False):
    """Expected final state of an amino-acid residue named `name` in the input.

    Returns dict(prefix, core, atoms, charge, his_any, bonds, tmpl) where `core`
    is None for a plain HIS (tautomer chosen by the optimiser) and `tmpl` maps
    atom name -> template coordinates of the composed state.
    """
    base = BASE.get(name, name)
    patches = []
    npro = base == "PRO"
    if nterm:
        patches.append("NEUTRAL-NTERM" if (neutraln or npro) else "NTERM")
    if cterm:
        patches.append("NEUTRAL-CTERM" if neutralc else "CTERM")
    var = name if name in BASE else None
    if base == "CYS" and ss:
        var = "CYX"
    if var in ("ASH", "GLH", "CYM", "CYX", "LYN", "TYM", "AR0"):
        patches.append(var)
    tmpl, bonds = compose(base, patches)
    atoms = set(tmpl)
    his_any = False
    if base == "HIS":
        if name in ("HIP", "HSP"):
            core = "HIP"
        elif name in ("HID", "HSD"):
            core = "HID"
            atoms.discard("HE2")
        elif name in ("HIE", "HSE"):
            core = "HIE"
            atoms.discard("HD1")
        else:
            core = None
            his_any = True
    elif var == "ASH":
        core = "ASH"
        atoms.discard("HD1")
    elif var == "GLH":
        core = "GLH"
        atoms.discard("HE1")
    elif var is not None:
        core = var
    else:
        core = base
    charge = SIDE_CHARGE.get(core, 0) if core else 0
    prefix = ""
    if nterm:
        if neutraln and not npro:
            prefix = "NEUTRAL-N"
        else:
            prefix = "N"
            charge += 1
    if cterm:
        if not nterm:
            prefix = "NEUTRAL-C" if neutralc else "C"
        if not neutralc:
            charge -= 1
    return dict(
        prefix=prefix, core=core, atoms=atoms, charge=charge, his_any=his_any,
        bonds=bonds, tmpl=tmpl,
    )  # fmt: skip


NA_TEMPLATE = {"A": "RA", "C": "RC", "G": "RG", "U": "RU", "T": "DT"}


def expected_na(letter, dna, five, three):
    """Expected final state of a nucleotide: dict(name, atoms, tmpl, bonds).

    RNA: template R<letter>; DNA: the D<letter> patch on it (DT is its own template); the 5' end
    loses its phosphate and gains H5T, the 3' end gains H3T (patches <name>5 / <name>3)."""
    base = NA_TEMPLATE[letter]
    patches = []
    name = base
    if dna and letter != "T":
        name = "D" + letter
        patches.append(name)
    if five:
        patches.append(name + "5")
    if three:
        patches.append(name + "3")
    tmpl, bonds = compose(base, [p for p in patches if p in PATCH])
    missing_patch = [p for p in patches if p not in PATCH]
    return dict(name=name + ("5" if five else "") + ("3" if three else ""), atoms=set(tmpl), tmpl=tmpl, bonds=bonds,
                missing_patch=missing_patch)


def alt_to_canonical(resname):
    """Old/alternative atom names -> canonical for a residue (incl. patches)."""
    base = BASE.get(resname, resname)
    out = dict(RES[base]["alts"]) if base in RES else {}
    return out


def rigid_fragments(bonds, ring_aware=True):
    """Moving sets: for each acyclic bond (a,b) the atoms on b's side."""
    out = {}
    for a in bonds:
        for b in bonds[a]:
            side = far_side(bonds, a, b)
            if side is not None:
                out[(a, b)] = side
    return out


def far_side(bonds, a, b):
    """Atoms reached from b without crossing a; None if the bond is in a ring."""
    seen = {b}
    stack = [b]
    while stack:
        x = stack.pop()
        for y in bonds.get(x, []):
            if x == b and y == a:
                continue
            if y == a:
                return None
            if y not in seen and y in bonds:
                seen.add(y)
                stack.append(y)
    return seen


measure = _dist
angle = _angle


def selftest():
    assert set(AA20) <= set(RES), "amino-acid templates missing"
    for na in ("RA", "RC", "RG", "RU", "DT"):
        assert na in RES
    for p in ("NTERM", "CTERM", "NEUTRAL-NTERM", "NEUTRAL-CTERM", "PEPTIDE", "CYX", "ASH"):
        assert p in PATCH
    st = expected_state("ALA", True, False)
    assert st["atoms"] == {"N", "CA", "C", "O", "CB", "H", "H2", "H3", "HA", "HB1", "HB2", "HB3"}
    assert st["charge"] == 1 and st["prefix"] == "N"
    st = expected_state("ASP", False, True)
    assert st["charge"] == -2 and "OXT" in st["atoms"] and st["prefix"] == "C"
    st = expected_state("CYS", False, False, ss=True)
    assert "HG" not in st["atoms"] and st["core"] == "CYX"
    st = expected_state("PRO", True, False)
    assert {"H2", "H3"} <= st["atoms"] or {"H", "H2"} <= st["atoms"]
    assert abs(measure(RES["ALA"]["atoms"]["N"], RES["ALA"]["atoms"]["CA"]) - 1.47) < 0.03
