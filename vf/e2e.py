"""Shared end-to-end machinery: structure-case strategies, running pdb2pqr on a
materialised case, and relating the result to what the generator built."""

from __future__ import annotations

import numpy as np
from hypothesis import strategies as st

from . import build, colfmt, ffmodel, pipeline, strat, topo

REPAIR_LIMIT = 0.10  # documented in pdb2pqr.config (REPAIR_LIMIT)


# --------------------------------------------------------------------------
# strategies
# --------------------------------------------------------------------------
CHAIN_IDS = ["A", "B", "C", "D", "X", "Y", "Z", "a", "b", "1", "2"]


@st.composite
def structure(draw, max_chains=3, nmax=6, wild=False, contact=True, waters=True, variants=0.2,
              hyd=None, missing=False, names=None, nmin=1, oxt=None, start=None, icodes=False, cif=False,
              min_chains=1, idpool=None):  # fmt: skip
    nch = draw(st.integers(min_chains, max_chains))
    ids = draw(st.permutations(idpool or CHAIN_IDS))[:nch]
    chains = []
    for ci in range(nch):
        ch = draw(strat.chain(cid=ids[ci], nmin=nmin, nmax=nmax, wild=wild, hyd=hyd,
                              variants=variants, names=names, oxt=oxt, start=start))  # fmt: skip
        if ch["start"] + len(ch["seq"]) > 9999:
            ch["start"] = 9990 - len(ch["seq"])
        if ci > 0:
            if contact and draw(st.integers(0, 3)) > 0:
                ch["contact"] = draw(strat.contact(wild, tip=draw(st.integers(0, 3)) == 0))
            else:
                ch["shift"] = [45.0 * ci, draw(strat.fl(-5.0, 5.0)), draw(strat.fl(-5.0, 5.0))]
        if icodes and draw(st.integers(0, 2)) == 0:
            strat.add_insertion_codes(draw, ch)
        if missing and ch["hyd"] == "none" and draw(st.integers(0, 1)) == 0:
            ri = draw(st.integers(0, len(ch["seq"]) - 1))
            ch["drop_spec"] = dict(res=ri, atom=draw(st.integers(0, 30)),
                                   mode=draw(st.sampled_from(["tail", "tail", "gap", "backbone-O"])))  # fmt: skip
        chains.append(ch)
    if len(chains) >= 2 and draw(st.integers(0, 5)) == 0:
        # a homo-oligomer: the second chain is an exact copy of the first (same sequence, conformation,
        # numbering, hydrogens), only translated and with its own id
        import copy

        twin = copy.deepcopy(chains[0])
        twin["id"] = chains[1]["id"]
        twin.pop("contact", None)
        twin.pop("ss_to", None)
        twin["shift"] = [55.0, draw(strat.fl(-5.0, 5.0)), draw(strat.fl(-5.0, 5.0))]
        chains[1] = twin
    desc = dict(chains=chains)
    order = draw(st.sampled_from([None, None, None, None, "others-first", "reverse-chains", "interleave"]))
    if order:
        desc["order"] = order  # same records in another file order
    cols = draw(st.sampled_from([None, None, None, "no-element", "no-element", "short", "segid", "left-names"]))
    if cols:
        desc["columns"] = cols  # PDB columns after the coordinates: element absent / line cut / segment id
    if cif and draw(st.integers(0, 3)) == 0:
        # the same structure handed over as mmCIF; half of these with multi-character chain ids
        desc["cif"] = dict(multi=draw(st.booleans()), bigseq=draw(st.sampled_from([False, False, True])))
        for ch in desc["chains"]:
            ch.pop("altmod", None)
            if ch["id"].strip() == "":
                ch["id"] = "Z"
    if waters:
        # waters usually have a chain id of their own; one time in five they carry the id of the first
        # protein chain (listed after its TER - or BEFORE the chain when the order variant puts hetero
        # records first: the chain then starts with a water)
        wid = "W"
        if not desc.get("cif") and draw(st.integers(0, 4)) == 0:
            wid = chains[0]["id"]
        desc["waters"] = [
            dict(draw(strat.water()), chain=wid, seq=300 + k)
            for k in range(draw(st.integers(0, 3)))
        ]
    return desc


@st.composite
def strands(draw, kmax=2):
    """1-2 DNA / RNA strands (descriptors for build.strand_records)."""
    out = []
    for k in range(draw(st.integers(1, kmax))):
        dna = draw(st.booleans())
        n = draw(st.integers(2, 6))
        seq = "".join(draw(st.lists(st.sampled_from("ACGT" if dna else "ACGU"), min_size=n, max_size=n)))
        out.append(dict(id="NM"[k], dna=dna, seq=seq, p5=draw(st.booleans()), newnames=draw(st.booleans()),
                        style=draw(st.sampled_from(["bare", "R"])), start=draw(st.sampled_from([1, 10, 101])),
                        stars=draw(st.sampled_from([0, 0, 1, 2])), shuffle=draw(st.sampled_from([0, 0, 7, 19, 402])),
                        jitter=draw(st.sampled_from([0.0, 0.0, 0.03])), q=draw(strat.quat())))  # fmt: skip
    return out


MANY_IDS = list("ABCDEFGHIJKLMNOPQRSTUVWXYZabcdefghijklmnopqrstuvwxyz0123456789")


@st.composite
def big_structure(draw, **kw):
    """Structures outside the size / content envelope of `structure`: protein chains and nucleic-acid
    strands in ONE file (`mixed`), many chains (4-9, or 27-30: more than the alphabet), one long chain
    (10-24 residues).  desc["big"] names the kind."""
    kind = draw(st.sampled_from(["mixed", "mixed", "mixed", "many", "many", "alphabet", "long", "long", "hidden-many", "water-box"]))

    def mk(**base):
        p = dict(contact=False, variants=0.3)
        p.update(base)
        for k, v in kw.items():
            p[k] = max(v, base.get("nmin", 1)) if k == "nmin" else v
        return structure(**p)

    if kind == "mixed":
        desc = draw(mk(max_chains=2, nmax=4))
        desc["na"] = draw(strands())
        for ch in desc["chains"]:
            if ch["id"] in ("N", "M"):
                ch["id"] = "P"
    elif kind == "many":
        desc = draw(mk(min_chains=4, max_chains=9, nmax=3, idpool=MANY_IDS))
    elif kind == "alphabet":
        desc = draw(mk(min_chains=27, max_chains=30, nmax=2, idpool=MANY_IDS))
        desc["waters"] = desc.get("waters", [])[:1]
    elif kind == "water-box":
        # a short peptide in a box of 60-200 waters (hydrogen-bonded lattice, or too sparse to bond)
        desc = draw(mk(max_chains=1, nmax=3))
        nw = draw(st.integers(60, 200))
        spacing = draw(st.sampled_from([2.8, 3.1, 4.5]))
        first = draw(st.sampled_from([1, 300, 9700]))
        side = int(round(nw ** (1 / 3))) + 1
        desc["waters"] = [dict(xyz=[15.0 + spacing * (k % side) + 0.01 * ((7 * k) % 13), 15.0 + spacing * ((k // side) % side) + 0.01 * ((5 * k) % 11),
                                    15.0 + spacing * (k // (side * side)) + 0.01 * ((3 * k) % 7)], chain="W", seq=first + k, h="none")
                          for k in range(nw)]  # fmt: skip
    elif kind == "hidden-many":
        # 53-56 copies of one short peptide under ONE chain id, no TER: chain ends recognisable only by
        # the OXT atoms - more hidden chains than there are letters to name them
        import copy

        desc = draw(mk(max_chains=1, nmax=2))
        base = desc["chains"][0]
        base.update(oxt=True, ter=False, start=1)
        for k in ("nums", "icodes", "altmod", "extra", "drop_spec", "hetres"):
            base.pop(k, None)
        desc.pop("order", None)
        n = len(base["seq"])
        copies = []
        for k in range(draw(st.integers(53, 56))):
            c = copy.deepcopy(base)
            c["start"] = 1 + k * (n + 1)
            copies.append(c)
        desc["chains"] = copies
        desc["waters"] = []
    else:
        desc = draw(mk(max_chains=1, nmin=10, nmax=24, variants=0.25))
    if len(desc["chains"]) > 3:
        # chains of a large assembly laid out on a grid (no accidental contacts)
        for ci, ch in enumerate(desc["chains"]):
            ch.pop("contact", None)
            ch["shift"] = [45.0 * (ci % 6), 45.0 * (ci // 6), float(ch.get("shift", [0, 0, 0])[2])]
    for ch in desc["chains"]:
        if ch.get("extra") and ch.get("oxt"):
            ch.pop("extra")  # (undefined atoms with nothing to repair: pdb2pqr fails loudly, see C12)
    desc["big"] = kind
    return desc


def big_ff(draw, desc):
    """A force field that defines every residue class of the descriptor."""
    na = desc.get("na") or []
    if not na:
        return draw(st.sampled_from(strat.FFS))
    return draw(st.sampled_from(["AMBER", "CHARMM", "TYL06"] + ([] if any(x["dna"] for x in na) else ["PARSE"])))


@st.composite
def window_structure(draw, waters=True):
    """G2: a contiguous window of a real structure (+ nearby crystal waters), optionally with a
    generated second chain in contact."""
    ch = dict(id=draw(st.sampled_from(["A", "B", "K"])), start=draw(st.sampled_from([1, 17, 250])),
              window=dict(file=draw(st.integers(0, 5)), first=draw(st.integers(0, 5000)), len=draw(st.integers(3, 14)),
                          maxwat=draw(st.integers(0, 6)) if waters else 0),
              q=draw(strat.quat()), shift=[draw(strat.fl(-30.0, 30.0)) for _ in range(3)], ter=True)  # fmt: skip
    chains = [ch]
    if draw(st.integers(0, 3)) == 0:
        c2 = draw(strat.chain(cid="Q", nmin=1, nmax=3, variants=0))
        c2["contact"] = draw(strat.contact())
        chains.append(c2)
    return dict(chains=chains, waters=[])


def resolve_drops(desc):
    """Turn drop_spec (indices) into concrete [res_index, atom] lists (deterministic)."""
    for ch in desc["chains"]:
        if "window" in ch:
            continue
        spec = ch.get("drop_spec")
        if not spec or "drop" in ch:
            continue
        ri = spec["res"] % len(ch["seq"])
        rn = ch["seq"][ri]
        base = topo.BASE.get(rn, rn)
        t = topo.RES[base]
        side = [a for a in t["atoms"] if topo.heavy(a) and a not in ("N", "CA", "C", "O")]
        if spec.get("mode") == "backbone-O" and 0 < ri < len(ch["seq"]) - 1:
            ch["drop"] = [[ri, "O"]]  # carbonyl oxygen of an interior residue (rebuilt from C, CA, N+1)
            ch["drop_mode"] = "tail"
            continue
        if not side:
            ch["drop"] = []
            continue
        a = side[spec["atom"] % len(side)]
        bonds = {k: [b for b in v if topo.heavy(b)] for k, v in t["bonds"].items() if topo.heavy(k)}
        # atoms "beyond" a = further from CA along the bond graph
        distca = _graph_dist(bonds, "CA")
        beyond = {a}
        stack = [a]
        while stack:
            x = stack.pop()
            for y in bonds.get(x, []):
                if y not in beyond and distca.get(y, 0) > distca.get(x, 0):
                    beyond.add(y)
                    stack.append(y)
        if spec["mode"] == "tail":
            ch["drop"] = [[ri, x] for x in sorted(beyond)]
        else:
            ch["drop"] = [[ri, a]]
        ch["drop_mode"] = "tail" if (spec["mode"] == "tail" or len(beyond) == 1) else "gap"
    return desc


def _graph_dist(bonds, root):
    dist = {root: 0}
    queue = [root]
    while queue:
        x = queue.pop(0)
        for y in bonds.get(x, []):
            if y not in dist:
                dist[y] = dist[x] + 1
                queue.append(y)
    return dist


# --------------------------------------------------------------------------
# analysis
# --------------------------------------------------------------------------
class Analysis:
    pass


def ss_from_records(s):
    """Cysteines that are disulfide-bonded according to the coordinates (mutual, exclusive)."""
    sg = {(r["group"][1], r["group"][2]): r["xyz"] for r in s.records if r["name"] == "SG" and r["group"][0] == "chain"}
    near = {k: [j for j in sg if j != k and float(np.linalg.norm(sg[k] - sg[j])) < 2.5] for k in sg}
    return {k for k, v in near.items() if len(v) == 1 and near[v[0]] == [k]}


def expected_for(desc, opts, s=None):
    """Per (chain index, residue index): expected final state from the descriptor."""
    neutraln = "--neutraln" in opts
    neutralc = "--neutralc" in opts
    out = {}
    bonded = ss_from_records(s) if s is not None else set()
    for ci, ch in enumerate(desc["chains"]):
        n = len(ch["seq"])
        for i, name in enumerate(ch["seq"]):
            ss = (ci, i) in {tuple(x) for x in desc.get("ss", [])} or (ci, i) in bonded
            out[(ci, i)] = topo.expected_state(
                name, i == 0, i == n - 1, neutraln=neutraln, neutralc=neutralc, ss=ss
            )
    return out


def counts(desc, s: build.Structure):
    """(heavy atoms present in recognised residues, heavy atoms missing)."""
    heavy = sum(1 for r in s.records if r["group"][0] == "chain" and topo.heavy(r["name"]))
    missing = 0
    for ch in desc["chains"]:
        if "window" in ch:
            missing += ch.get("window_missing", 0)
            continue
        missing += len(ch.get("drop", []))
        if not ch.get("oxt", True):
            missing += 1
    return heavy, missing


def normalise(desc, opts=()):
    """Keep the descriptor inside the documented input domain (deterministic):
    at most REPAIR_LIMIT of the heavy atoms may be missing unless the case asks
    for an unrepairable structure (desc['allow_excess']); --assign-only/--clean add
    nothing, so nothing may be missing there."""
    resolve_drops(desc)
    if desc.get("allow_excess"):
        return desc
    strict = "--assign-only" in opts
    if strict and "--drop-water" not in opts:
        desc["waters"] = []  # oxygen-only waters cannot be parameterised without adding atoms
    if strict:
        for ch in desc["chains"]:
            ch.pop("hdrop", None)  # nothing is added with --assign-only: no hydrogen may be missing
    if "--neutraln" in opts or "--neutralc" in opts:
        for ch in desc["chains"]:
            # old-style names of cap hydrogens that the requested neutral state does not have (HT3 ...)
            # are outside pdb2pqr's name maps; alternative heavy-atom names (OT1/OT2, CD) stay
            if "altmod" in ch:
                ch["altheavy"] = True
    heavy = 0
    for ch in desc["chains"]:
        if "window" in ch:
            continue  # real data: whatever is missing is missing
        for rn in ch["seq"]:
            t = topo.RES[topo.BASE.get(rn, rn)]["atoms"]
            heavy += sum(1 for a in t if topo.heavy(a))
    budget = 0 if strict else int(REPAIR_LIMIT * heavy * 0.9)
    for ch in desc["chains"]:
        if "window" in ch:
            continue
        need = len(ch.get("drop", [])) + (0 if ch.get("oxt", True) else 1)
        if need == 0:
            continue
        if len(ch.get("drop", [])) > budget:
            ch["drop"] = []
            ch["drop_mode"] = None
        budget -= len(ch.get("drop", []))
        if not ch.get("oxt", True):
            if budget < 1:
                ch["oxt"] = True
            else:
                budget -= 1
    return desc


def structure_to_cif(s, cif):
    """The materialised structure as mmCIF text (independent G4 writer).  cif = dict(multi=bool):
    multi-character author chain ids that share their first character (AA, AB, ...), which only
    mmCIF can express."""
    from . import cifgen

    ids = []
    for r in s.records:
        if r["chain"] not in ids:
            ids.append(r["chain"])
    cmap = {c: (("A" + "ABCDEFGH"[k % 8]) if cif.get("multi") else (c if c.strip() else "Z")) for k, c in enumerate(ids)}
    atoms = []
    for k, r in enumerate(s.records):
        seq = r["seq"]
        if cif.get("bigseq") and r["group"][0] == "water":
            seq += 10000  # five-digit author residue numbers (large assemblies; only mmCIF can carry them)
        atoms.append(dict(rec=r["rec"], serial=k + 1, name=r["name"], alt=r.get("alt", " "), resn=r["resn"], chain=cmap[r["chain"]],
                          label_chain="ABCDEFGHIJ"[ids.index(r["chain"]) % 10], seq=seq, icode=r.get("icode", " "),
                          xyz=r["xyz"], occ=1.0, b=10.0, elem=r["name"].lstrip("0123456789")[0], charge="", model=1,
                          label_seq=(r["group"][2] + 1) if r["group"][0] in ("chain", "na") else r["seq"]))  # fmt: skip
    return cifgen.cif_text(atoms), cmap


def add_hidden_ends(draw, desc):
    """Turn the chains of a descriptor into ONE chain id without TER records: a chain end that is
    recognisable only by the OXT of the residue before it (two or three molecules).  Returns True if
    applied."""
    if len(desc["chains"]) < 2 or desc.get("cif"):
        return False
    desc.pop("order", None)  # the construction relies on the file order (OXT of the part written first)
    a, b = desc["chains"][0], desc["chains"][1]
    if a["start"] > 9000:
        a["start"] = 1
    a["oxt"], a["ter"] = True, False
    a.pop("nums", None)
    a.pop("icodes", None)
    for ch_ in desc["chains"]:
        ch_.pop("altmod", None)  # a hidden chain end is recognised by an atom NAMED OXT
    b["id"] = a["id"]
    b.pop("nums", None)
    b.pop("icodes", None)
    b["start"] = a["start"] + len(a["seq"]) + draw(st.sampled_from([0, 0, 5]))
    if len(desc["chains"]) > 2 and draw(st.booleans()):
        c = desc["chains"][2]
        b["oxt"], b["ter"] = True, False
        c["id"] = a["id"]
        c.pop("nums", None)
        c.pop("icodes", None)
        c["start"] = b["start"] + len(b["seq"]) + draw(st.sampled_from([0, 3]))
    return True


def tip_table(tier="quick"):
    """Finite table of directed clashes: GLY-X-GLY for every residue type X with a side-chain tip,
    a second chain whose one heavy atom sits `gap` beyond each tip of X (so that the hydrogens added
    at the tip bump and the debumper has to turn the side chain), x atom orders inside the residue
    (template order, three permutations) x side-chain conformers.  Descriptors only."""
    out = []
    gaps = [1.3, 1.7, 2.1] if tier == "quick" else [1.2, 1.4, 1.6, 1.8, 2.0, 2.2, 2.4]
    chis = [[-60.0, 180.0, 60.0, 180.0, -60.0], [180.0, 60.0, 180.0, -60.0, 60.0]]
    if tier != "quick":
        chis.append([60.0, -70.0, -170.0, 65.0, 175.0])
    for x, tips in sorted(build.TIP_ATOMS.items()):
        for t in range(len(tips)):
            for gi, gap in enumerate(gaps):
                for si, shuffle in enumerate([0, 5, 11, 23]):
                    for ci, chi in enumerate(chis):
                        if tier == "quick" and (gi + si + ci) % 2:
                            continue  # half of the grid at the quick tier
                        a = dict(id="A", start=1, seq=["GLY", x, "GLY"], phi=[-70.0] * 3, psi=[140.0, 135.0, 145.0], chi=[chi] * 3,
                                 hyd="none", oxt=True, q=[1, 0.1 * si, 0.2, 0.3], ter=True)
                        if shuffle:
                            a["shuffle"] = shuffle
                        b = dict(id="B", start=11, seq=["GLY", "GLY"], phi=[-65.0] * 2, psi=[150.0, 140.0], chi=[chi] * 2, hyd="none",
                                 oxt=True, q=[1, 0.3, 0.1, 0.2], ter=True,
                                 contact=dict(target=t, dir=[0.1 * ci, 0.05 * gi, 0.02], gap=gap, tip=True))
                        out.append(dict(desc=dict(chains=[a, b], waters=[]), opts=[]))
                        if shuffle == 0 and ci == 0:
                            # ... and the same clash far from the coordinate origin (large assemblies)
                            out.append(dict(desc=dict(chains=[dict(a, shift=[1500.0, -800.0, 2500.0]), dict(b)], waters=[]), opts=[]))
    # the same clashes on an input that already carries all hydrogens, on the titration route (hydrogens are
    # stripped and rebuilt as NEW atoms; a later side-chain turn has to take them along)
    import copy as _copy

    for x, tips in sorted(build.TIP_ATOMS.items()):
        for t in range(len(tips)):
            for gi, gap in enumerate([1.5, 2.0] if tier == "quick" else [1.3, 1.6, 1.9, 2.2]):
                a = dict(id="A", start=1, seq=["GLY", x, "GLY"], phi=[-70.0] * 3, psi=[140.0, 135.0, 145.0], chi=[chis[gi % 2]] * 3,
                         hyd="all", oxt=True, q=[1, 0.1, 0.2, 0.3], ter=True)
                b = dict(id="B", start=11, seq=["GLY", "GLY"], phi=[-65.0] * 2, psi=[150.0, 140.0], chi=[chis[0]] * 2, hyd="all",
                         oxt=True, q=[1, 0.3, 0.1, 0.2], ter=True,
                         contact=dict(target=t, dir=[0.1, 0.05 * gi, 0.02], gap=gap, tip=True))
                out.append(dict(desc=dict(chains=[a, b], waters=[]), opts=[], tit=dict(ph=7.0, pka=[])))
                out.append(dict(desc=_copy.deepcopy(out[-1]["desc"]), opts=[]))
    # second family: the tip atom itself is LEFT OUT of the input and the other chain sits where it
    # will be rebuilt, under every debump/optimisation mode (a rebuilt atom in a clash is what the
    # first debumping pass reacts to; with --nodebump nothing may move)
    modes = [[], ["--nodebump"], ["--noopt"], ["--nodebump", "--noopt"]]
    for x, tips in sorted(build.TIP_ATOMS.items()):
        for t, (tip_name, _prev) in enumerate(tips):
            for gi, gap in enumerate([1.3, 1.9] if tier == "quick" else [1.2, 1.5, 1.8, 2.1, 2.4]):
                for mi, mode in enumerate(modes):
                    a = dict(id="A", start=1, seq=["GLY", x, "GLY"], phi=[-70.0] * 3, psi=[140.0, 135.0, 145.0], chi=[chis[(gi + mi) % 2]] * 3,
                             hyd="none", oxt=True, q=[1, 0.1 * mi, 0.2, 0.3], ter=True, drop=[[1, tip_name]])
                    b = dict(id="B", start=11, seq=["GLY", "GLY"], phi=[-65.0] * 2, psi=[150.0, 140.0], chi=[chis[0]] * 2, hyd="none",
                             oxt=True, q=[1, 0.3, 0.1, 0.2], ter=True,
                             contact=dict(target=0, dir=[0.1 * mi, 0.05 * gi, 0.02], gap=gap, tip="dropped"))
                    out.append(dict(desc=dict(chains=[a, b], waters=[]), opts=list(mode)))
                    if "--nodebump" in mode and gi == 0:
                        # the same on the titration route (hydrogens stripped/rebuilt, second debump pass)
                        import copy

                        out.append(dict(desc=copy.deepcopy(out[-1]["desc"]), opts=list(mode), tit=dict(ph=7.0, pka=[])))
    return out


def _rot_to_quat(R):
    """Rotation matrix -> quaternion (w, x, y, z) in the convention of geom.quat_to_rot."""
    from .geom import quat_to_rot

    w = np.sqrt(max(0.0, 1.0 + R[0, 0] + R[1, 1] + R[2, 2])) / 2.0
    if w > 1e-6:
        q = np.array([w, (R[2, 1] - R[1, 2]) / (4 * w), (R[0, 2] - R[2, 0]) / (4 * w), (R[1, 0] - R[0, 1]) / (4 * w)])
    else:
        x = np.sqrt(max(0.0, 1.0 + R[0, 0] - R[1, 1] - R[2, 2])) / 2.0
        y = np.sqrt(max(0.0, 1.0 - R[0, 0] + R[1, 1] - R[2, 2])) / 2.0
        z = np.sqrt(max(0.0, 1.0 - R[0, 0] - R[1, 1] + R[2, 2])) / 2.0
        q = np.array([0.0, x, y * np.sign(R[0, 1] + 1e-12), z * np.sign(R[0, 2] + 1e-12)])
    for cand in (q, q * np.array([1, -1, -1, -1])):
        if np.allclose(quat_to_rot(list(cand)), R, atol=1e-6):
            return [float(v) for v in cand]
    return [float(v) for v in q]


def _aim_chain(ch, donor, hyd, target, direction, dist, spin=0.0):
    """Set q / shift of chain descriptor `ch` so that its atom `donor` (residue index, name) sits at
    `target + dist * direction` and its hydrogen `hyd` points from the donor at the target."""
    from .geom import rodrigues

    probe = dict(ch, q=[1, 0, 0, 0], shift=[0.0, 0.0, 0.0], hyd="all")
    probe.pop("contact", None)
    s0 = build.materialise(dict(chains=[probe]))
    xyz = {(r["group"][2], r["name"]): r["xyz"] for r in s0.records}
    u0 = (xyz[hyd] - xyz[donor]) / np.linalg.norm(xyz[hyd] - xyz[donor])  # bond direction in the identity pose
    # position of the donor in the identity pose of the chain AS IT WILL BE WRITTEN (its centroid
    # depends on which atoms are present)
    s1 = build.materialise(dict(chains=[dict(probe, hyd=ch.get("hyd", "none"))]))
    d0 = next(r["xyz"] for r in s1.records if (r["group"][2], r["name"]) == donor)
    cen0 = np.zeros(3)
    u1 = -np.asarray(direction, float) / np.linalg.norm(direction)  # donor -> hydrogen points back at the target
    axis = np.cross(u0, u1)
    if np.linalg.norm(axis) < 1e-9:
        R = np.eye(3) if np.dot(u0, u1) > 0 else -np.eye(3) + 2 * np.outer([1, 0, 0], [1, 0, 0])
    else:
        ang = np.degrees(np.arctan2(np.linalg.norm(axis), np.dot(u0, u1)))
        R = rodrigues(np.eye(3), axis / np.linalg.norm(axis), ang).T
    if spin:
        R = rodrigues(np.eye(3), u1, spin).T @ R
    tpos = np.asarray(target, float) + dist * np.asarray(direction, float) / np.linalg.norm(direction)
    ch["q"] = _rot_to_quat(R)
    ch["shift"] = [float(v) for v in (tpos - R @ (d0 - cen0))]
    ch.pop("contact", None)
    return ch


def network_table(tier="quick"):
    """Directed hydrogen-bond networks (finite table): an acceptor - a water oxygen or a free cysteine
    SG - with 2-3 fixed donors (indole N-H of GLY-TRP-GLY chains) aimed at it from tetrahedral-like
    directions at H-bond distance, nothing for it to donate to; plus a partner water placed on / off
    the tetrahedral cone.  These reach the optimiser's 'accepts several, donates none' branches
    (three-bond hydrogen placement, lone-pair bookkeeping) that random placements rarely do."""
    out = []

    def donor_chain(cid, k):
        return dict(id=cid, start=10 * (k + 1), seq=["GLY", "TRP", "GLY"], phi=[-70.0] * 3, psi=[140.0, 135.0, 145.0],
                    chi=[[-60.0, 90.0, 60.0, 180.0, -60.0]] * 3, hyd="none", oxt=True, q=[1, 0, 0, 0], ter=True)

    tetra = [np.array(v, float) for v in ([1, 1, 1], [1, -1, -1], [-1, 1, -1], [-1, -1, 1])]
    spins = [0.0, 120.0] if tier == "quick" else [0.0, 60.0, 120.0, 200.0]
    # (a) water between two / three donors
    for nd in (2, 3):
        for dist in ([2.9] if tier == "quick" else [2.8, 2.9, 3.0]):
            for open_angle in (0.0, 12.0, -10.0):
                for spin in spins:
                    centre = np.array([30.0, 30.0, 30.0])
                    chains = []
                    for k in range(nd):
                        u = tetra[k].copy()
                        if k == 1 and open_angle:
                            from .geom import rodrigues

                            u = rodrigues(u[None], np.cross(tetra[0], tetra[1]) / np.linalg.norm(np.cross(tetra[0], tetra[1])), open_angle)[0]
                        chains.append(_aim_chain(donor_chain("ABC"[k], k), (1, "NE1"), (1, "HE1"), centre, u, dist, spin + 40.0 * k))
                    waters = [dict(xyz=[float(v) for v in centre], chain="W", seq=300)]
                    for extra in ([], [[3, 2.8, 0.0]], [[3, 2.8, 28.0]]):
                        ws = list(waters)
                        for (k, d2, off) in extra:
                            u = tetra[k] / np.linalg.norm(tetra[k])
                            if off:
                                from .geom import rodrigues

                                u = rodrigues(u[None], np.cross(tetra[0], tetra[3]) / np.linalg.norm(np.cross(tetra[0], tetra[3])), off)[0]
                            ws.append(dict(xyz=[float(v) for v in centre + d2 * u], chain="W", seq=301 + k))
                        out.append(dict(desc=dict(chains=[dict(c) for c in chains], waters=ws), label=f"water-{nd}-donors"))
    # (c) five-water clusters: a centre water with four water neighbours on the tetrahedral directions at
    # increasing O...O distances (the optimiser works through candidate bonds by distance), one of them
    # turned off the tetrahedral cone so that the centre ACCEPTS from it instead of donating: the centre
    # ends up accepting two and donating two, the last hydrogen through the only free position
    from .geom import rodrigues as _rod

    pep = dict(id="P", start=1, seq=["GLY", "ALA", "GLY"], phi=[-70.0] * 3, psi=[140.0, 135.0, 145.0],
               chi=[[-60.0, 180.0, 60.0, 180.0, -60.0]] * 3, hyd="none", oxt=True, q=[1, 0, 0, 0], shift=[0.0, 0.0, 0.0], ter=True)
    for dists in ([2.6, 2.7, 2.8, 2.9], [2.75, 2.8, 2.85, 2.9]):
        for off_idx in (1, 0, 2):
            for off in ([28.0, 0.0] if tier == "quick" else [0.0, 15.0, 22.0, 28.0, 35.0]):
                for grot in ([0.0, 47.0] if tier == "quick" else [0.0, 33.0, 47.0, 101.0]):
                    centre = np.array([52.5, 48.25, 61.0])
                    dirs = [t / np.linalg.norm(t) for t in tetra]
                    ws = []
                    seqs = [301, 303, 304, 305]
                    for k in range(4):
                        u = dirs[k]
                        if k == off_idx and off:
                            ax = np.cross(dirs[k], dirs[(k + 1) % 4])
                            u = _rod(u[None], ax / np.linalg.norm(ax), off)[0]
                        if grot:
                            u = _rod(u[None], np.array([0.3, 0.5, 0.81]) / np.linalg.norm([0.3, 0.5, 0.81]), grot)[0]
                        ws.append(dict(xyz=[float(v) for v in centre + dists[k] * u], chain="W", seq=seqs[k]))
                    ws.insert(1, dict(xyz=[float(v) for v in centre], chain="W", seq=302))
                    out.append(dict(desc=dict(chains=[dict(pep)], waters=ws), label="water-cluster"))
    # (b) free cysteine SG with 2-3 donors on the positions opposite to CB
    for nd in (2, 3):
        for dist in ([3.3] if tier == "quick" else [3.2, 3.4, 3.6]):
            for spin in spins:
                acc = dict(id="S", start=1, seq=["GLY", "CYS", "GLY"], phi=[-70.0] * 3, psi=[140.0, 135.0, 145.0],
                           chi=[[-60.0, 180.0, 60.0, 180.0, -60.0]] * 3, hyd="none", oxt=True, q=[1, 0, 0, 0], shift=[0.0, 0.0, 0.0], ter=True)
                s0 = build.materialise(dict(chains=[dict(acc)]))
                xyz = {(r["group"][2], r["name"]): r["xyz"] for r in s0.records}
                sg, cb = xyz[(1, "SG")], xyz[(1, "CB")]
                axis = (sg - cb) / np.linalg.norm(sg - cb)
                # three directions at 109.5 deg from SG->CB ... i.e. 70.5 deg from the CB->SG axis, 120 deg apart
                perp = np.cross(axis, [0.3, 0.5, 0.8])
                perp /= np.linalg.norm(perp)
                from .geom import rodrigues

                chains = [acc]
                for k in range(nd):
                    base = np.cos(np.radians(70.5)) * axis + np.sin(np.radians(70.5)) * perp
                    u = rodrigues(base[None], axis, 120.0 * k + 15.0)[0]
                    chains.append(_aim_chain(donor_chain("ABC"[k], k), (1, "NE1"), (1, "HE1"), sg, u, dist, spin + 50.0 * k))
                out.append(dict(desc=dict(chains=[dict(c) for c in chains], waters=[]), label=f"cys-{nd}-donors"))
    return out


def acid_table(part):
    """Protonated carboxylic acids (input-named ASH / GLH) x chain position x C-O bond-length pairs
    (equal, slightly and clearly unequal, either oxygen longer) x force field x optimisation on/off:
    the optimiser treats a carboxyl with C-O lengths differing by > 0.05 A on a branch of its own."""
    from .props import c06
    from . import strat as _strat

    out = []
    k = 0
    for name in ("ASH", "GLH"):
        for pos in "NMC":
            for pair in ([1.35, 1.20], [1.20, 1.35], [1.26, 1.25], [1.31, 1.21], [1.21, 1.31], None):
                for ff in _strat.FFS:
                    for opts in ([], ["--noopt"]):
                        k += 1
                        ch = c06._context(k % 3, name, pos)
                        idx = ch["seq"].index(name) if pos != "C" else len(ch["seq"]) - 1
                        ch["acid"] = [pair if i == idx else None for i in range(len(ch["seq"]))]
                        out.append(dict(part=part, desc=dict(chains=[ch], waters=[]), ff=ff, opts=list(opts), wild=False))
    return out


def network_cases(part, tier="quick", only=None):
    """Case dicts over the directed network table (force fields and opt switch cycling)."""
    import copy

    out = []
    ffs = ["AMBER", "PARSE", "CHARMM", "TYL06"]
    k = 0
    for item in network_table(tier):
        if only and not item["label"].startswith(only):
            continue
        for opts in ([], ["--noopt"]):
            k += 1
            out.append(dict(part=part, desc=copy.deepcopy(item["desc"]), ff=ffs[k % len(ffs)], opts=list(opts), wild=False, every=1,
                            net=item["label"]))
    return out


def draw_titration(draw, desc, p=3):
    """Optional titration route: harness pKa source (PROPKA's row format) with drawn pKa values."""
    if draw(st.integers(0, p - 1)) != 0:
        return None
    return dict(ph=draw(st.sampled_from([1.5, 4.0, 7.0, 12.5])),
                pka=[[ci, i, draw(st.integers(0, 14000)) / 1000.0] for ci, ch in enumerate(desc["chains"]) if "window" not in ch
                     for i, rn in enumerate(ch["seq"]) if rn in ("ASP", "GLU", "HIS", "CYS", "TYR", "LYS", "ARG")])  # fmt: skip


def apply_titration(desc, tit, opts):
    """Install the harness pKa source for this run; returns the extra options."""
    if not tit:
        return []
    from .props import c06

    c06.install_fake_propka()
    c06.PKA.clear()
    c06.TERM_ROWS.clear()
    normalise(desc, opts)
    for ci, i, v in tit["pka"]:
        ch = desc["chains"][ci]
        if i < len(ch["seq"]):
            c06.PKA[(ch["id"], ch.get("nums", [ch["start"] + k for k in range(len(ch["seq"]))])[i])] = v
    return ["--titration-state-method=propka", f"--with-ph={tit['ph']}"]


def neutral_opts(draw, ff, opts):
    """--neutraln / --neutralc (accepted with PARSE only) for runs that add atoms."""
    out = []
    if ff == "PARSE" and "--clean" not in opts and "--assign-only" not in opts:
        if draw(st.integers(0, 3)) == 0:
            out.append("--neutraln")
        if draw(st.integers(0, 2)) == 0:
            out.append("--neutralc")
    return out


def run_case(desc, ff, opts, **kw):
    normalise(desc, opts)
    s = build.materialise(desc)
    args = ([] if "--clean" in opts else [f"--ff={ff}"]) + list(opts)
    if desc.get("cif"):
        text, s.cif_chain_map = structure_to_cif(s, desc["cif"])
        r = pipeline.run(text, args, ext="cif", **kw)
    else:
        r = pipeline.run(s.text(), args, **kw)
    return s, r


def analyse(desc, ff, opts, s, r) -> Analysis:
    """Relate pdb2pqr's returned model and PQR file to the descriptor."""
    A = Analysis()
    A.desc, A.ff, A.opts, A.s, A.run = desc, ff, opts, s, r
    A.problems = []  # structural problems found while relating (C03-type)
    A.expected = expected_for(desc, opts, s)
    # input atoms by coordinate
    A.inp = {}
    coord_index = {}
    for rec in s.records:
        g = rec["group"]
        if g[0] == "water":
            g = ("water", rec["chain"], rec["seq"])
        A.inp.setdefault(g, {})[rec.get("canon", rec["name"])] = rec["xyz"]  # keyed by canonical name
        coord_index[tuple(np.round(rec["xyz"], 3))] = g
    A.residues = []
    if not r.ok:
        return A
    seen_groups = {}
    for res in r.bio.residues:
        g = None
        for a in res.atoms:
            g = coord_index.get((round(a.x, 3), round(a.y, 3), round(a.z, 3)))
            if g is not None:
                break
        entry = dict(obj=res, group=g, atoms={})
        for a in res.atoms:
            if a.name in entry["atoms"]:
                A.problems.append(("C03:duplicate-name-in-model", f"{res} has two atoms named {a.name}"))
            entry["atoms"][a.name] = a
        if g is None:
            A.problems.append(("C03:unmatched-residue", f"output residue {res} matches no input residue"))
        elif g in seen_groups:
            A.problems.append(("C03:residue-duplicated", f"input residue {g} appears twice in the model"))
        else:
            seen_groups[g] = entry
        A.residues.append(entry)
    A.by_group = seen_groups
    # a cysteine whose SG was missing from the input gets its sulfur from repair_heavy; bridges are
    # detected on the rebuilt position BEFORE debumping may turn the side chain again, so neither the
    # input nor the final coordinates decide: for such a cysteine and for every cysteine whose sulfur
    # is within reach of it (6.5 A of its CA) the expectation follows the model's own bridge flag
    # (C13 decides these placements with a generator of its own)
    sg = {(r_["group"][1], r_["group"][2]): r_["xyz"] for r_ in s.records if r_["name"] == "SG" and r_["group"][0] == "chain"}
    rebuilt = {}
    for g, entry in seen_groups.items():
        if g[0] == "chain" and (g[1], g[2]) not in sg and "SG" in entry["atoms"] and "CA" in entry["atoms"]:
            rebuilt[(g[1], g[2])] = np.array(entry["atoms"]["CA"].coords)
    if rebuilt:
        follow = set(rebuilt)
        for k, xyz in sg.items():
            if any(float(np.linalg.norm(xyz - ca)) < 6.5 for ca in rebuilt.values()):
                follow.add(k)
        for (ci, i) in follow:
            entry = seen_groups.get(("chain", ci, i))
            if entry is None:
                continue
            ch = desc["chains"][ci]
            A.expected[(ci, i)] = topo.expected_state(ch["seq"][i], i == 0, i == len(ch["seq"]) - 1, neutraln="--neutraln" in opts,
                                                      neutralc="--neutralc" in opts, ss=bool(getattr(entry["obj"], "ss_bonded", False)))  # fmt: skip
    for g in A.inp:
        if g not in seen_groups and not (g[0] == "water" and "--drop-water" in opts):
            A.problems.append(("C03:residue-lost", f"input residue {g} is not in the final model"))
    # PQR lines <-> model atoms
    A.missing_ids = {id(a) for a in (r.missing or [])}
    ws = "--whitespace" in opts
    A.lines = []
    A.pairs = None
    try:
        A.lines = colfmt.read_pqr_text(r.pqr_text or "", ws)
    except Exception as e:  # noqa: BLE001
        A.problems.append(("C08:run:unreadable", f"PQR not readable: {e!r}"))
        return A
    model_atoms = [a for res in r.bio.residues for a in res.atoms]
    A.model_atoms = model_atoms
    if "--clean" in opts:
        written = model_atoms
    else:
        written = [a for a in model_atoms if id(a) not in A.missing_ids]
    if len(written) != len(A.lines):
        A.problems.append((
            "C03:partition",
            f"{len(model_atoms)} model atoms, {len(A.missing_ids)} reported unassigned, "
            f"{len(A.lines)} written",
        ))
        return A
    pairs = []
    for ln, a in zip(A.lines, written):
        if ln["name"] != a.name or abs(ln["x"] - a.x) > 6e-4 or abs(ln["y"] - a.y) > 6e-4 or abs(ln["z"] - a.z) > 6e-4:
            A.problems.append(("C03:order", f"PQR line {ln['name']} {ln['seq']} does not correspond to model atom {a.name} of {a.residue}"))
            return A
        pairs.append((ln, a))
    A.pairs = pairs
    return A


def final_state_name(entry, exp):
    """Expected force-field residue name for an output residue, resolving HIS."""
    core = exp["core"]
    if core is None:
        names = set(entry["atoms"])
        core = "HIP" if {"HD1", "HE2"} <= names else ("HID" if "HD1" in names else "HIE")
    return exp["prefix"] + core, core
