"""G1 - template structure builder: case descriptor -> records -> PDB text.

A *structure descriptor* is plain JSON::

    {"chains": [{"id": "A", "start": 1, "seq": [...], "phi": [...], "psi": [...],
                 "omega": [...]?, "chi": [[...], ...], "hyd": "none|all",
                 "oxt": true, "q": [w,x,y,z], "shift": [x,y,z],
                 "contact": {...}?, "ter": true, "icodes": [...]?,
                 "drop": [[res_index, atomname], ...]?}, ...],
     "waters": [{"anchor": int, "dir": [x,y,z], "d": float, "chain": "W",
                 "seq": 300}, ...],
     "na": [ {...strand...} ]?}

Everything is computed deterministically from the descriptor; coordinates are
rounded to 3 decimals (what the PDB file carries) so the oracle knows exactly
what pdb2pqr was given.
"""

from __future__ import annotations

import numpy as np

from . import topo
from .geom import dihedral, kabsch, nerf, quat_to_rot, rot_about
from .topo import BASE, PATCH, RES, angle, compose, far_side, measure

_T = RES["ALA"]["atoms"]
_PEP = PATCH["PEPTIDE"]["atoms"]
_CT = PATCH["CTERM"]["atoms"]
L_N_CA = measure(_T["N"], _T["CA"])
L_CA_C = measure(_T["CA"], _T["C"])
L_C_N = measure(_PEP["C-1"], _T["N"])
A_N_CA_C = angle(_T["N"], _T["CA"], _T["C"])
A_C_N_CA = angle(_PEP["C-1"], _T["N"], _T["CA"])
A_CA_C_N = angle(_T["CA"], _T["C"], _PEP["N+1"])
L_C_O = measure(_T["C"], _T["O"])
A_CA_C_O = angle(_T["CA"], _T["C"], _T["O"])
L_C_OXT = measure(_T["C"], _CT["OXT"])
A_CA_C_OXT = angle(_T["CA"], _T["C"], _CT["OXT"])


def backbone(n, phis, psis, omegas):
    N = np.zeros(3)
    CA = np.array([L_N_CA, 0.0, 0.0])
    C = nerf(np.array([0.3, 1.0, 0.2]), N, CA, L_CA_C, A_N_CA_C, -60.0)
    bb = [(N, CA, C)]
    for i in range(1, n):
        pN, pCA, pC = bb[-1]
        Nn = nerf(pN, pCA, pC, L_C_N, A_CA_C_N, psis[i - 1])
        CAn = nerf(pCA, pC, Nn, L_N_CA, A_C_N_CA, omegas[i - 1])
        Cn = nerf(pC, Nn, CAn, L_CA_C, A_N_CA_C, phis[i])
        bb.append((Nn, CAn, Cn))
    return bb


def side_chain_dihedrals(base):
    """Heavy-atom torsions of the template, in template order."""
    return [d for d in RES[base]["dihedrals"] if topo.heavy(d.split()[3])]


ACID_BONDS = {"ASP": ("CG", "OD1", "OD2", ("HD1", "HD2")), "GLU": ("CD", "OE1", "OE2", ("HE1", "HE2"))}


def build_chain(seq, phis, psis, chis=None, omegas=None, hydrogens="none", oxt=True, acid=None, hdrop=None):
    """Residues [{name, atoms{canonical name: xyz}}] in ideal template geometry."""
    n = len(seq)
    omegas = omegas or [180.0] * n
    bb = backbone(n, phis, psis, omegas)
    # certification: a linear chain must not look head-to-tail cyclic (pdb2pqr treats a
    # first-N / last-C distance below 1.35 A as a peptide bond); re-draw a middle psi
    tries = 0
    while n >= 3 and measure(bb[0][0], bb[-1][2]) < 2.5 and tries < 6:
        psis = list(psis)
        psis[n // 2] = psis[n // 2] + 75.0
        bb = backbone(n, phis, psis, omegas)
        tries += 1
    out = []
    for i, rn in enumerate(seq):
        base = BASE.get(rn, rn)
        patches = []
        if i == 0:
            patches.append("NEUTRAL-NTERM" if base == "PRO" else "NTERM")
        if i == n - 1:
            patches.append("CTERM")
        if rn in ("ASH", "GLH", "CYM", "CYX", "LYN", "TYM", "AR0"):
            patches.append(rn)
        tat, tb = compose(base, patches)
        if rn in ("HID", "HSD"):
            tat.pop("HE2", None)
        if rn in ("HIE", "HSE"):
            tat.pop("HD1", None)
        # a plain HIS written with hydrogens carries both ring protons (template form)
        if rn == "ASH":
            tat.pop("HD1", None)
        if rn == "GLH":
            tat.pop("HE1", None)
        R, tr = kabsch([tat[k] for k in ("N", "CA", "C")], bb[i])
        co = {k: R @ v + tr for k, v in tat.items()}
        co["N"], co["CA"], co["C"] = bb[i]
        if chis and chis[i]:
            for dname, val in zip(side_chain_dihedrals(base), chis[i]):
                a, b, c, d = dname.split()
                mov = far_side(tb, b, c)
                if mov is None or any(m not in co for m in (a, b, c, d)):
                    continue
                cur = dihedral(co[a], co[b], co[c], co[d])
                names = [m for m in mov if m in co and m != c]
                if not names:
                    continue
                new = rot_about([co[m] for m in names], co[b], co[c], val - cur)
                for m, p in zip(names, new):
                    co[m] = p
        if i < n - 1:
            co["O"] = nerf(bb[i + 1][0], bb[i][1], bb[i][2], L_C_O, A_CA_C_O, 180.0)
        else:
            pl = psis[i]
            co["O"] = nerf(bb[i][0], bb[i][1], bb[i][2], L_C_O, A_CA_C_O, pl + 180.0)
            if oxt:
                co["OXT"] = nerf(bb[i][0], bb[i][1], bb[i][2], L_C_OXT, A_CA_C_OXT, pl)
            else:
                co.pop("OXT", None)
        if "H" in co and i > 0 and base != "PRO":
            R2, t2 = kabsch(
                [_PEP["C-1"], _T["N"], _T["CA"]], [bb[i - 1][2], bb[i][0], bb[i][1]]
            )
            co["H"] = R2 @ _T["H"] + t2
        # carboxyl groups with unequal C-O bond lengths (as in real structures): the oxygens (and a
        # proton riding on them) slide along their bonds, all angles stay template angles
        if acid and acid[i] and base in ACID_BONDS:
            c, o1, o2, hs = ACID_BONDS[base]
            for o, length in ((o1, acid[i][0]), (o2, acid[i][1])):
                if o in co and c in co:
                    u = (co[o] - co[c]) / measure(co[o], co[c])
                    delta = co[c] + u * length - co[o]
                    co[o] = co[o] + delta
                    for h in hs:
                        if h in co and h in tb.get(o, []):
                            co[h] = co[h] + delta
        if hydrogens == "none":
            co = {k: v for k, v in co.items() if topo.heavy(k)}
        elif hdrop:
            hyd = [k for k in co if not topo.heavy(k)]
            for ri, j in hdrop:
                if ri % n == i and hyd:
                    co.pop(hyd[j % len(hyd)], None)
        out.append(dict(name=rn, atoms=co, bonds=tb))
    return out


def hash_name(name, key):
    """Small deterministic hash (independent of PYTHONHASHSEED) used for atom-order permutations."""
    h = key * 2654435761 % 4294967296
    for ch_ in name:
        h = (h * 31 + ord(ch_)) % 4294967296
    return h


def pdb_name(name):
    return name[:4] if len(name) >= 4 else " " + name.ljust(3)


def fmt_atom(serial, name, resname, chain, resseq, icode, xyz, rec="ATOM", alt=" ",
             occ=1.0, b=0.0, elem=None):  # fmt: skip
    elem = elem or name.lstrip("0123456789")[0]
    return "%-6s%5d %4s%1s%3s %1s%4d%1s   %8.3f%8.3f%8.3f%6.2f%6.2f          %2s" % (
        rec, serial % 100000, pdb_name(name), alt, resname, chain, resseq, icode,
        xyz[0], xyz[1], xyz[2], occ, b, elem,
    )  # fmt: skip


class Structure:
    """Materialised structure: ordered records + what the generator knows."""

    def __init__(self):
        self.records = []  # dicts: rec name alt resn chain seq icode xyz elem group
        self.chains = []  # metadata per constructed chain
        self.ters = set()  # record indices after which a TER is written
        self.min_heavy_gap = None

    def add(self, **kw):
        kw.setdefault("alt", " ")
        kw.setdefault("icode", " ")
        kw.setdefault("rec", "ATOM")
        kw["xyz"] = np.round(np.asarray(kw["xyz"], float), 3)
        self.records.append(kw)
        return len(self.records) - 1

    def lines(self, end=True, chain_order=None):
        """PDB lines; chain_order permutes the constructed chains in the file
        (coordinates unchanged) - used for order-independence relations."""
        idx = list(range(len(self.records)))
        if chain_order is not None:
            def key(i):
                g = self.records[i]["group"]
                return (0, chain_order.index(g[1]), i) if g[0] == "chain" else (1, 0, i)

            idx.sort(key=key)
        order = getattr(self, "order", None)
        if order and chain_order is None:
            # same content, other record order: waters / hetero groups before the chains, waters
            # interleaved with the chains, chains in reverse file order
            def gkey(i):
                g = self.records[i]["group"]
                return g[1] if g[0] in ("chain", "na") and len(g) > 1 else None

            chains_ = [i for i in idx if self.records[i]["group"][0] in ("chain", "na")]
            others = [i for i in idx if self.records[i]["group"][0] not in ("chain", "na")]
            if order == "others-first":
                idx = others + chains_
            elif order == "reverse-chains":
                blocks = {}
                for i in chains_:
                    blocks.setdefault((self.records[i]["group"][0], gkey(i)), []).append(i)
                idx = [i for k_ in reversed(list(blocks)) for i in blocks[k_]] + others
            elif order == "interleave":
                blocks = {}
                for i in chains_:
                    blocks.setdefault((self.records[i]["group"][0], gkey(i)), []).append(i)
                keys_ = list(blocks)
                idx = []
                rest = []  # hetero residues / waters as whole residues
                for i in others:
                    r_ = self.records[i]
                    k2 = (r_["chain"], r_["seq"], r_["icode"], r_["resn"])
                    if rest and rest[-1][0] == k2:
                        rest[-1][1].append(i)
                    else:
                        rest.append((k2, [i]))
                for k_ in keys_:
                    idx += blocks[k_]
                    if rest:
                        idx += rest.pop(0)[1]
                for _k2, ii in rest:
                    idx += ii
        hold_ter, release_at = None, None
        if order == "waters-before-ter" and chain_order is None:
            # the waters of a chain listed BEFORE that chain's TER record (as many programs write them)
            first = [i for i in idx if self.records[i]["group"][0] in ("chain", "na") and self.records[i]["group"][1] == 0
                     and self.records[i]["group"][0] == self.records[idx[0]]["group"][0]]
            wat = [i for i in idx if self.records[i]["group"][0] == "water"]
            if first and wat and first[-1] in self.ters and idx[: len(first)] == first:
                rest_ = [i for i in idx if i not in set(first) | set(wat)]
                idx = first + wat + rest_
                hold_ter, release_at = first[-1], len(first) + len(wat) - 1
        out = []
        for n, i in enumerate(idx):
            r = self.records[i]
            ln = fmt_atom(r.get("serial", n + 1), r["name"], r["resn"], r["chain"], r["seq"], r["icode"],
                          r["xyz"], rec=r["rec"], alt=r["alt"])  # fmt: skip
            cols = getattr(self, "columns", None)
            if cols == "no-element":
                ln = ln[:76] + "  "  # element symbol absent (older files, many modelling programs)
            elif cols == "short":
                ln = ln[:54]  # nothing after the coordinates
            elif cols == "segid":
                ln = ln[:72] + "PROA" + ln[76:]
            elif cols == "left-names":
                ln = ln[:12] + r["name"][:4].ljust(4) + ln[16:]  # atom names left-justified in columns 13-16
            out.append(ln)
            if i in self.ters and i != hold_ter:
                out.append("TER")
            if hold_ter is not None and n == release_at:
                out.append("TER")  # the first chain's TER comes after the waters that were listed with it
        if end:
            out.append("END")
        return out

    def text(self, chain_order=None):
        return "\n".join(self.lines(chain_order=chain_order)) + "\n"

    def heavy_xyz(self):
        return np.array([r["xyz"] for r in self.records if topo.heavy(r["name"])])


TIP_ATOMS = {
    "LYS": [("NZ", "CE")], "ARG": [("NH1", "CZ"), ("NH2", "CZ")], "SER": [("OG", "CB")], "THR": [("OG1", "CB"), ("CG2", "CB")],
    "TYR": [("OH", "CZ")], "LEU": [("CD1", "CG"), ("CD2", "CG")], "ILE": [("CD1", "CG1")], "VAL": [("CG1", "CB"), ("CG2", "CB")],
    "MET": [("CE", "SD")], "ALA": [("CB", "CA")], "ASN": [("ND2", "CG")], "GLN": [("NE2", "CD")], "CYS": [("SG", "CB")],
    "PHE": [("CZ", "CE1")], "TRP": [("CH2", "CZ2")], "HIS": [("NE2", "CE1")],
}  # fmt: skip


def _place_contact(P1, P2, target, dirv, gap):
    """Shift P2 along dirv from `target` until its closest atom is >= gap from P1."""
    dirv = np.asarray(dirv, float)
    nrm = np.linalg.norm(dirv)
    dirv = dirv / nrm if nrm > 1e-6 else np.array([1.0, 0.0, 0.0])
    d = min(2.0, gap)
    while True:
        shift = target + dirv * d
        dm = np.min(np.linalg.norm((P2 + shift)[:, None] - P1[None], axis=-1))
        if dm >= gap or d > 60:
            return shift
        d += 0.25


def materialise(desc) -> Structure:
    s = Structure()
    s.columns = desc.get("columns")
    s.order = desc.get("order")
    built = []
    placed_xyz = []  # arrays of already placed heavy atoms
    window_waters = []
    for ci, ch in enumerate(desc["chains"]):
        if "window" in ch:
            wres, wnear = window_chain(ch["window"])
            ch["seq"] = [r["name"] for r in wres]
            ch["oxt"] = "OXT" in wres[-1]["atoms"]
            ch["hyd"] = "none"
            ch.setdefault("start", 1)
            res = [dict(name=r["name"], atoms=dict(r["atoms"]), bonds=RES[r["name"]]["bonds"]) for r in wres]
            tmpl_heavy = sum(sum(1 for a in RES[r["name"]]["atoms"] if topo.heavy(a)) for r in wres)
            ch["window_missing"] = tmpl_heavy - sum(len(r["atoms"]) for r in wres) + (0 if ch["oxt"] else 1)
            window_waters = [(ci, w) for w in wnear]
        else:
            res = None
        seq = ch["seq"]
        n = len(seq)
        if res is None:
            res = build_chain(
                seq, ch["phi"], ch["psi"], ch.get("chi"), ch.get("omega"),
                hydrogens=ch.get("hyd", "none"), oxt=ch.get("oxt", True), acid=ch.get("acid"), hdrop=ch.get("hdrop"),
            )  # fmt: skip
        # over-long peptide links (chain breaks without TER): everything after residue i is shifted
        # along C(i)->N(i+1) so that this distance becomes d
        for gi, gd in ch.get("stretch", []):
            gi = gi % max(n - 1, 1)
            if gi + 1 < n and "window" not in ch:
                c_, n_ = res[gi]["atoms"]["C"], res[gi + 1]["atoms"]["N"]
                u_ = (n_ - c_) / measure(n_, c_)
                delta_ = u_ * (gd - measure(n_, c_))
                for r_ in res[gi + 1 :]:
                    r_["atoms"] = {k: v + delta_ for k, v in r_["atoms"].items()}
        R = quat_to_rot(ch.get("q", [1, 0, 0, 0]))
        allp = np.array([v for r in res for v in r["atoms"].values()])
        cen = allp.mean(0)
        for r in res:
            r["atoms"] = {k: R @ (v - cen) for k, v in r["atoms"].items()}
        con = ch.get("contact")
        ssb = ch.get("ss_to")
        shift = None
        if ssb is not None and built:
            # place this chain so that its CYS SG lies at distance d from the SG of an
            # already placed chain, on the outward ray through that SG
            tgt_res = built[ssb["chain"]][ssb["res"]]
            sg1 = tgt_res["atoms"]["SG"]
            P1 = np.vstack(placed_xyz)
            u = sg1 - P1.mean(0)
            u = u / (np.linalg.norm(u) or 1.0)
            u = u + ssb.get("tiltw", 0.3) * np.asarray(ssb.get("tilt", [0, 0, 0]), float)
            u = u / (np.linalg.norm(u) or 1.0)
            if ssb.get("dir") is not None:  # explicit direction (axis-aligned placement grids)
                u = np.asarray(ssb["dir"], float)
                u = u / np.linalg.norm(u)
            sg2 = res[ssb["own"]]["atoms"]["SG"]
            shift = sg1 + ssb["d"] * u - sg2
        elif con is not None and placed_xyz:
            P1 = np.vstack(placed_xyz)
            P2 = np.array([v for r in res for v in r["atoms"].values()])
            tgt = P1[con["target"] % len(P1)]
            if con.get("tip"):
                # aim at the tip atom of a side chain of an earlier chain, along its last bond, so that
                # ALL hydrogens added to the tip bump into the approaching chain
                tips = []
                if con["tip"] == "dropped":
                    # aim at the position of an atom that is LEFT OUT of the input (and will be rebuilt)
                    for cj, chain_res in enumerate(built):
                        dl = {(d[0], d[1]) for d in desc["chains"][cj].get("drop", [])}
                        for (ri_, nm) in sorted(dl):
                            rr = chain_res[ri_]
                            for par in rr["bonds"].get(nm, []):
                                if (ri_, par) not in dl and par in rr["atoms"] and nm in rr["atoms"] and topo.heavy(par):
                                    tips.append((rr["atoms"][nm], rr["atoms"][nm] - rr["atoms"][par]))
                for rr in (x for chain_res in built for x in chain_res) if not tips else ():
                    for tip_name, prev_name in TIP_ATOMS.get(BASE.get(rr["name"], rr["name"]), []):
                        if tip_name in rr["atoms"] and prev_name in rr["atoms"]:
                            tips.append((rr["atoms"][tip_name], rr["atoms"][tip_name] - rr["atoms"][prev_name]))
                if tips:
                    tgt, dirv = tips[con["target"] % len(tips)]
                    u = dirv + 0.15 * np.asarray(con["dir"], float)
                    u = u / np.linalg.norm(u)
                    # single-atom approach: one heavy atom of this chain sits exactly `gap` beyond the
                    # tip, the rest of the chain is turned to point away from it
                    names_flat = [(ri, k) for ri, r in enumerate(res) for k in r["atoms"] if topo.heavy(k)]
                    ri, k = names_flat[con["target"] % len(names_flat)]
                    anchor = res[ri]["atoms"][k]
                    cenB = P2.mean(0)
                    v = cenB - anchor
                    if np.linalg.norm(v) > 1e-6:
                        v = v / np.linalg.norm(v)
                        axis = np.cross(v, u)
                        sn, cs = np.linalg.norm(axis), float(np.dot(v, u))
                        if sn > 1e-6:
                            ang = np.degrees(np.arctan2(sn, cs))
                            for r in res:
                                keys = list(r["atoms"])
                                pts = rot_about([r["atoms"][q] for q in keys], anchor, anchor + axis, ang)
                                r["atoms"] = dict(zip(keys, pts))
                    shift = tgt + u * con["gap"] - res[ri]["atoms"][k]
                    newP = np.array([v for r in res for v in r["atoms"].values()]) + shift
                    dmin = np.min(np.linalg.norm(newP[:, None] - P1[None], axis=-1))
                    if dmin < min(1.0, con["gap"] - 0.05):
                        shift = None  # would sit on top of an earlier chain (e.g. the same tip twice)
            if shift is None:
                shift = _place_contact(P1, P2, tgt, con["dir"], con["gap"])
        if shift is None:
            shift = np.asarray(ch.get("shift", [40.0 * ci, 0.0, 0.0]), float)
        for r in res:
            r["atoms"] = {k: v + shift for k, v in r["atoms"].items()}
        for wci, w in window_waters:
            if wci == ci:
                desc.setdefault("_window_waters", []).append(list(np.round(R @ (w - cen) + shift, 3)))
        window_waters = []
        placed_xyz.append(np.array([v for r in res for v in r["atoms"].values()]))
        drop = {(d[0], d[1]) for d in ch.get("drop", [])}
        icodes = ch.get("icodes") or [" "] * n
        nums = ch.get("nums") or [ch.get("start", 1) + i for i in range(n)]
        first = ["N", "CA", "C", "O"]
        meta = dict(id=ch["id"], seq=list(seq), nums=list(nums), icodes=list(icodes),
                    oxt=ch.get("oxt", True), n=n, hyd=ch.get("hyd", "none"),
                    dropped=sorted(drop), index=ci)  # fmt: skip
        altmod = ch.get("altmod", 0)
        counter = 0
        for i, r in enumerate(res):
            names = [k for k in first if k in r["atoms"]] + [
                k for k in r["atoms"] if k not in first
            ]
            if ch.get("shuffle"):
                # PDB files may list the atoms of a residue in any order (deterministic permutation)
                key = ch["shuffle"]
                names = sorted(names, key=lambda k_: (hash_name(k_, key + i), k_))
            inv = {}
            if altmod:
                base_ = BASE.get(r["name"], r["name"])
                sources = [RES[base_]["alts"]] if base_ in RES else []
                if i == 0:
                    sources.append(PATCH["NEUTRAL-NTERM" if base_ == "PRO" else "NTERM"]["alts"])
                if i == n - 1:
                    sources.append(PATCH["CTERM"]["alts"])
                if r["name"] in ("ASH", "GLH"):
                    sources.append(PATCH[r["name"]]["alts"])
                for src in sources:
                    for alt, canon in src.items():
                        inv.setdefault(canon, []).append(alt)
            used = set(names)
            for k in names:
                if (i, k) in drop:
                    continue
                out_name = k
                if altmod and k in inv and (topo.heavy(k) or not ch.get("altheavy")):
                    counter += 1
                    if counter % altmod == 0:
                        cand = [a for a in inv[k] if a not in used]
                        if cand:
                            out_name = cand[(counter // altmod) % len(cand)]
                            used.add(out_name)
                s.add(name=out_name, canon=k, resn=r["name"], chain=ch["id"], seq=nums[i], icode=icodes[i],
                      xyz=r["atoms"][k], group=("chain", ci, i),
                      rec="HETATM" if ch.get("hetres") is not None and ch["hetres"] % n == i else "ATOM")  # fmt: skip
        for ri_, xname in ch.get("extra", []):
            # a heavy atom the residue's topology does not define (post-translational modification,
            # refinement artefact): 1.45 A beyond the side-chain tip / CB / CA of that residue
            ri_ = ri_ % n
            r = res[ri_]
            base_ = BASE.get(r["name"], r["name"])
            known = set(RES[base_]["atoms"]) | set(RES[base_]["alts"]) | set(PATCH["CTERM"]["atoms"]) | set(PATCH["CTERM"]["alts"])
            if xname in known or any(x["name"] == xname and x["group"] == ("chain", ci, ri_) for x in s.records):
                continue
            cand = [(t_, p_) for t_, p_ in TIP_ATOMS.get(base_, []) if t_ in r["atoms"] and p_ in r["atoms"]]
            cand += [(t_, p_) for t_, p_ in (("CB", "CA"), ("CA", "N")) if t_ in r["atoms"] and p_ in r["atoms"]]
            if not cand:
                continue
            t_, p_ = cand[0]
            u = r["atoms"][t_] - r["atoms"][p_]
            pos = r["atoms"][t_] + 1.45 * u / np.linalg.norm(u)
            # insert after the last record of that residue
            idx = max(k for k, x in enumerate(s.records) if x["group"] == ("chain", ci, ri_))
            s.add(name=xname, canon=xname, resn=r["name"], chain=ch["id"], seq=nums[ri_], icode=icodes[ri_], xyz=pos,
                  group=("chain", ci, ri_), extra=True)  # fmt: skip
            s.records.insert(idx + 1, s.records.pop())
            meta.setdefault("extra", []).append((ri_, xname))
        if ch.get("ter", True) and s.records:
            s.ters.add(len(s.records) - 1)
        s.chains.append(meta)
        built.append(res)
    s.strands = []
    for si, strand in enumerate(desc.get("na", [])):
        s.strands.append(strand_records(s, strand, si))
    # waters that came with a real-structure window (already in the window's frame)
    for k, p in enumerate(desc.pop("_window_waters", [])):
        s.add(name="O", resn="HOH", chain="V", seq=800 + k, xyz=p, rec="HETATM", group=("water",))
    # waters
    heavy = s.heavy_xyz() if s.records else np.zeros((0, 3))
    polar = [r["xyz"] for r in s.records if r["name"][0] in "NO"]
    for w in desc.get("waters", []):
        if "xyz" in w:
            p = np.asarray(w["xyz"], float)
        elif polar:
            v = polar[w["anchor"] % len(polar)]
            u = np.asarray(w["dir"], float)
            nrm = np.linalg.norm(u)
            u = u / nrm if nrm > 1e-6 else np.array([0.0, 0.0, 1.0])
            p = v + u * w["d"]
        else:
            continue
        if len(heavy) and np.min(np.linalg.norm(heavy - p, axis=1)) < 2.6:
            continue
        s.add(name="O", resn=w.get("resn", "HOH"), chain=w.get("chain", "W"),
              seq=w.get("seq", 300), xyz=p, rec=w.get("rec", "HETATM"), group=("water",))  # fmt: skip
        if w.get("h") in ("both", "H2"):
            # a water that already carries hydrogens (both, or - incomplete - only the one named H2)
            t_ = RES["WAT"]["atoms"]
            for hn in (("H1", "H2") if w["h"] == "both" else ("H2",)):
                s.add(name=hn, resn=w.get("resn", "HOH"), chain=w.get("chain", "W"), seq=w.get("seq", 300),
                      xyz=p + (t_[hn] - t_["O"]), rec=w.get("rec", "HETATM"), group=("water",))  # fmt: skip
        heavy = np.vstack([heavy, np.round(p, 3)]) if len(heavy) else np.round(p, 3)[None]
    s.min_heavy_gap = min_nonbonded_gap(s)
    return s


def min_nonbonded_gap(s: Structure):
    """Smallest distance between heavy atoms of different residues that are not
    peptide-bonded neighbours (used to certify clash-free conformations)."""
    recs = [r for r in s.records if topo.heavy(r["name"])]
    if len(recs) < 2:
        return 99.0
    P = np.array([r["xyz"] for r in recs])
    D = np.linalg.norm(P[:, None] - P[None], axis=-1)
    best = 99.0
    keys = [(r["group"], r["chain"], r["seq"], r["icode"]) for r in recs]
    for i in range(len(recs)):
        for j in range(i + 1, len(recs)):
            if keys[i] == keys[j]:
                continue
            gi, gj = recs[i]["group"], recs[j]["group"]
            if gi[0] == gj[0] and gi[0] in ("chain", "na") and gi[1] == gj[1] and abs(gi[2] - gj[2]) == 1:
                continue
            if D[i, j] < best:
                best = float(D[i, j])
    return best


def intra_residue_clash(res_atoms, bonds, limit=2.2):
    """Heavy atoms of one residue closer than `limit` although >3 bonds apart."""
    names = [k for k in res_atoms if topo.heavy(k)]
    worst = None
    for i, a in enumerate(names):
        near = {a} | set(bonds.get(a, []))
        for x in list(near):
            near |= set(bonds.get(x, []))
        for x in list(near):
            near |= set(bonds.get(x, []))
        for b in names[i + 1 :]:
            if b in near:
                continue
            d = measure(res_atoms[a], res_atoms[b])
            if d < limit and (worst is None or d < worst):
                worst = d
    return worst


def selftest():
    res = build_chain(["ALA", "LYS", "TRP"], [-60] * 3, [-45] * 3, [[], [-60, 180, 180, 180], [-60, 90]],
                      hydrogens="all")  # fmt: skip
    # peptide bond and omega as constructed
    c0, n1 = res[0]["atoms"]["C"], res[1]["atoms"]["N"]
    assert abs(measure(c0, n1) - L_C_N) < 1e-9
    om = dihedral(res[0]["atoms"]["CA"], c0, n1, res[1]["atoms"]["CA"])
    assert abs(abs(om) - 180.0) < 1e-6
    # side-chain bond lengths equal the template's after chi rotations
    t = RES["LYS"]["atoms"]
    for a, b in (("CB", "CG"), ("CG", "CD"), ("CD", "CE"), ("CE", "NZ")):
        assert abs(measure(res[1]["atoms"][a], res[1]["atoms"][b]) - measure(t[a], t[b])) < 1e-9
    chi1 = dihedral(*(res[1]["atoms"][k] for k in ("N", "CA", "CB", "CG")))
    assert abs(chi1 + 60) < 1e-6, chi1


# --------------------------------------------------------------------------
# nucleic acids
# --------------------------------------------------------------------------
NA_TEMPLATE = {"A": "RA", "C": "RC", "G": "RG", "U": "RU", "T": "DT"}


def strand_records(s: Structure, st, index):
    """Append a DNA/RNA strand built from template nucleotides stacked by a screw
    transform.  Descriptor: {id, dna, seq (letters), p5, newnames, style, start, q, shift, hyd}."""
    R = quat_to_rot(st.get("q", [1, 0, 0, 0]))
    shift = np.asarray(st.get("shift", [0.0, 0.0, 60.0 + 40.0 * index]), float)
    dna = st["dna"]
    n = len(st["seq"])
    meta = dict(kind="na", id=st["id"], seq=list(st["seq"]), n=n, dna=dna, p5=st.get("p5", True),
                start=st.get("start", 1), index=index, phosphates=0)  # fmt: skip
    star_counter = 0
    for i, b in enumerate(st["seq"]):
        t = RES[NA_TEMPLATE[b]]
        if b == "T":
            rn = "DT"
        elif dna:
            rn = "D" + b
        else:
            rn = {"bare": b, "R": "R" + b}.get(st.get("style", "bare"), b)
        th = np.radians(36.0 * i)
        Rz = np.array([[np.cos(th), -np.sin(th), 0], [np.sin(th), np.cos(th), 0], [0, 0, 1]])
        has_p = False
        order = list(t["atoms"].items())
        if st.get("shuffle"):
            # atoms of a nucleotide listed in another order (e.g. sugar before / after the base)
            order.sort(key=lambda kv: (hash_name(kv[0], st["shuffle"] + i), kv[0]))
        for k, v in order:
            if st.get("jitter"):
                # coordinates off the ideal template by a few hundredths of an Angstrom (deterministic)
                v = v + st["jitter"] * (np.array([hash_name(k, 3 * i + c + 1) % 2001 for c in range(3)]) / 1000.0 - 1.0)
            if not topo.heavy(k) and (st.get("hyd", "none") == "none" or dna):
                continue  # (hydrogen naming differs between DNA and RNA templates: RNA strands only)
            if dna and k == "O2'" and b != "T":
                continue
            if i == 0 and not st.get("p5", True) and k in ("P", "O1P", "O2P"):
                continue
            if k == "P":
                has_p = True
            kk = {"O1P": "OP1", "O2P": "OP2"}.get(k, k) if st.get("newnames") else k
            canon_name = kk
            if st.get("stars"):
                # pre-remediation names of the sugar atoms (O5* ...) and of the thymine methyl (C5M)
                inv = [a for a, c in t["alts"].items() if c == k and topo.heavy(c)]
                if inv:
                    star_counter += 1
                    if star_counter % st["stars"] == 0:
                        kk = inv[0]
            xyz = R @ (Rz @ v + np.array([0.0, 0.0, 6.5 * i])) + shift
            s.add(name=kk, canon=canon_name, resn=rn, chain=st["id"], seq=meta["start"] + i, xyz=xyz,
                  group=("na", index, i))  # fmt: skip
        if has_p and i > 0:
            meta["phosphates"] += 1
    if st.get("ter", True) and s.records:
        s.ters.add(len(s.records) - 1)
    return meta


# --------------------------------------------------------------------------
# G2 - windows cut from real structures
# --------------------------------------------------------------------------
_WINDOW_CACHE = {}
WINDOW_FILES = ["1AFS", "1AJJ", "1BX8", "1K1I", "1QBS", "1US0"]


def _real_structure(name):
    """Parsed real structure: list of protein residues (heavy atoms, first alt-loc) and waters."""
    if name in _WINDOW_CACHE:
        return _WINDOW_CACHE[name]
    from pathlib import Path

    from . import colfmt

    path = Path(__file__).resolve().parent / "data" / "pdb" / f"{name}.pdb"
    residues, waters = [], []
    cur = None
    for ln in path.read_text().splitlines():
        if not ln.startswith(("ATOM", "HETATM")):
            continue
        a = colfmt.pdb_atom(ln)
        if a["alt"] not in (" ", "A") or not topo.heavy(a["name"]) or ln[76:78].strip() == "H":
            continue
        xyz = np.array([a["x"], a["y"], a["z"]])
        if a["resn"] == "HOH":
            waters.append(xyz)
            continue
        if a["rec"] != "ATOM" or a["resn"] not in topo.AA20:
            cur = None
            continue
        key = (a["chain"], a["seq"], a["icode"])
        if cur is None or cur["key"] != key:
            cur = dict(key=key, name=a["resn"], atoms={})
            residues.append(cur)
        if a["name"] not in cur["atoms"]:
            cur["atoms"][a["name"]] = xyz
    # contiguity: peptide bond to the next residue
    for r, nxt in zip(residues, residues[1:] + [None]):
        r["linked"] = bool(nxt and "C" in r["atoms"] and "N" in nxt["atoms"] and measure(r["atoms"]["C"], nxt["atoms"]["N"]) < 1.5
                           and r["key"][0] == nxt["key"][0])
    _WINDOW_CACHE[name] = (residues, waters)
    return _WINDOW_CACHE[name]


def window_chain(spec):
    """Resolve a window spec {file, first, len} into residues; returns (list of residue dicts, waters near)."""
    residues, waters = _real_structure(WINDOW_FILES[spec["file"] % len(WINDOW_FILES)])
    n = len(residues)
    first = spec["first"] % n
    out = [residues[first]]
    while len(out) < spec["len"] and out[-1]["linked"]:
        out.append(residues[residues.index(out[-1]) + 1])
    # template-complete residues only at the cut (missing side-chain atoms stay missing: a repair case)
    P = np.array([v for r in out for v in r["atoms"].values()])
    near = [w for w in waters if np.min(np.linalg.norm(P - w, axis=1)) < 3.5][: spec.get("maxwat", 6)]
    return out, near
