"""O3 - geometry helpers written independently of pdb2pqr (numpy only)."""

import math

import numpy as np


def quat_to_rot(q):
    """Proper rotation matrix of a (not necessarily unit) quaternion (w,x,y,z)."""
    q = np.asarray(q, float)
    n = float(np.linalg.norm(q))
    if n < 1e-3:
        return np.eye(3)
    a, b, c, d = q / n
    return np.array(
        [
            [a * a + b * b - c * c - d * d, 2 * (b * c - a * d), 2 * (b * d + a * c)],
            [2 * (b * c + a * d), a * a - b * b + c * c - d * d, 2 * (c * d - a * b)],
            [2 * (b * d - a * c), 2 * (c * d + a * b), a * a - b * b - c * c + d * d],
        ]
    )


def rodrigues(points, axis, deg):
    """Right-handed rotation of `points` (vectors from the axis origin) by deg."""
    u = np.asarray(axis, float)
    u = u / np.linalg.norm(u)
    th = math.radians(deg)
    pts = np.asarray(points, float)
    return (
        pts * math.cos(th)
        + np.cross(u, pts) * math.sin(th)
        + np.outer(pts @ u, u) * (1 - math.cos(th))
    )


def rot_about(points, p0, p1, deg):
    """Rotate points about the line p0->p1 (right-handed)."""
    p0 = np.asarray(p0, float)
    pts = np.asarray(points, float) - p0
    return rodrigues(pts, np.asarray(p1, float) - p0, deg) + p0


def dihedral(p0, p1, p2, p3):
    """IUPAC dihedral in degrees via atan2."""
    p0, p1, p2, p3 = (np.asarray(p, float) for p in (p0, p1, p2, p3))
    b0 = p0 - p1
    b1 = p2 - p1
    b2 = p3 - p2
    b1n = b1 / np.linalg.norm(b1)
    v = b0 - np.dot(b0, b1n) * b1n
    w = b2 - np.dot(b2, b1n) * b1n
    return math.degrees(math.atan2(np.dot(np.cross(b1n, v), w), np.dot(v, w)))


def angle(a, b, c):
    a, b, c = (np.asarray(p, float) for p in (a, b, c))
    v1 = a - b
    v2 = c - b
    cs = float(np.dot(v1, v2) / np.linalg.norm(v1) / np.linalg.norm(v2))
    return math.degrees(math.acos(max(-1.0, min(1.0, cs))))


def dist(a, b):
    return float(np.linalg.norm(np.asarray(a, float) - np.asarray(b, float)))


def angdiff(a, b):
    """Smallest absolute difference of two angles in degrees."""
    return abs((a - b + 180.0) % 360.0 - 180.0)


def kabsch(P, Q):
    """Best proper rotation R and translation t with R P + t ~ Q."""
    P = np.asarray(P, float)
    Q = np.asarray(Q, float)
    pc = P.mean(0)
    qc = Q.mean(0)
    H = (P - pc).T @ (Q - qc)
    U, _, Vt = np.linalg.svd(H)
    d = np.sign(np.linalg.det(Vt.T @ U.T)) or 1.0
    R = Vt.T @ np.diag([1, 1, d]) @ U.T
    return R, qc - R @ pc


def rmsd_fit(P, Q):
    """RMSD after optimal proper superposition of P onto Q."""
    P = np.asarray(P, float)
    Q = np.asarray(Q, float)
    if len(P) == 0:
        return 0.0
    if len(P) == 1:
        return 0.0
    R, t = kabsch(P, Q)
    return float(np.sqrt((((R @ P.T).T + t - Q) ** 2).sum(1).mean()))


def nerf(a, b, c, length, angle_deg, torsion_deg):
    """Place d with |cd|=length, angle(b,c,d)=angle, dihedral(a,b,c,d)=torsion."""
    a, b, c = (np.asarray(p, float) for p in (a, b, c))
    ang = math.radians(angle_deg)
    tor = math.radians(torsion_deg)
    bc = c - b
    bc = bc / np.linalg.norm(bc)
    n = np.cross(b - a, bc)
    n = n / np.linalg.norm(n)
    m = np.cross(n, bc)
    d2 = np.array(
        [
            -length * math.cos(ang),
            length * math.sin(ang) * math.cos(tor),
            length * math.sin(ang) * math.sin(tor),
        ]
    )
    return c + d2[0] * bc + d2[1] * m + d2[2] * n


def selftest():
    rng = np.random.default_rng(0)
    for _ in range(50):
        q = rng.normal(size=4)
        R = quat_to_rot(q)
        assert abs(np.linalg.det(R) - 1) < 1e-9 and np.allclose(R @ R.T, np.eye(3))
        a, b, c = rng.normal(size=(3, 3)) * 2
        tor = float(rng.uniform(-179, 179))
        d = nerf(a, b, c, 1.5, 110.0, tor)
        assert abs(dist(c, d) - 1.5) < 1e-9
        assert abs(angle(b, c, d) - 110.0) < 1e-7
        assert angdiff(dihedral(a, b, c, d), tor) < 1e-7
        # right-handed rotation about b->c increases the dihedral
        d2 = rot_about([d], b, c, 25.0)[0]
        assert angdiff(dihedral(a, b, c, d2), tor + 25.0) < 1e-7
        P = rng.normal(size=(5, 3))
        Q = (R @ P.T).T + rng.normal(size=3)
        assert rmsd_fit(P, Q) < 1e-9
        assert rmsd_fit(P * np.array([1, 1, -1]), Q) > 1e-3
