"""G4 - independent mmCIF writer (wwPDB-shaped data block) and the matching PDB writer.

Both are fed from the same atom list, so a structure is expressed once in each
format.  The header categories are a fixed wwPDB-shaped preamble (shape copied
from an archive entry) because the reader dereferences several of them.
"""

from pathlib import Path

from . import build

HEADER = (Path(__file__).resolve().parent / "data" / "cif_header.txt").read_text()

ITEMS = ["group_PDB", "id", "type_symbol", "label_atom_id", "label_alt_id", "label_comp_id", "label_asym_id",
         "label_entity_id", "label_seq_id", "pdbx_PDB_ins_code", "Cartn_x", "Cartn_y", "Cartn_z", "occupancy",
         "B_iso_or_equiv", "pdbx_formal_charge", "auth_seq_id", "auth_comp_id", "auth_asym_id", "auth_atom_id",
         "pdbx_PDB_model_num"]  # fmt: skip


def q(s):
    """CIF quoting of a data value."""
    if s == "":
        return "."
    if "'" in s and '"' in s:
        return "\n;" + s + "\n;\n"
    if "'" in s:
        return '"' + s + '"'
    if '"' in s or " " in s or s[0] in "_#$[];":
        return "'" + s + "'"
    return s


OPTIONAL_ITEMS = ["label_entity_id", "label_seq_id", "auth_comp_id", "auth_atom_id"]


def cif_text(atoms, order=None, omit=()):
    """atoms: dicts(rec, serial, name, alt, resn, chain, label_chain, seq, icode, xyz, occ, b, elem, charge, model).

    order: permutation of range(len(ITEMS)) (column order of the atom_site loop);
    omit: optional items left out (third-party writers do not emit all 21 items)."""
    cols = [i for i in (order or range(len(ITEMS))) if ITEMS[i] not in omit]
    out = [HEADER, "loop_"] + ["_atom_site." + ITEMS[i] + " " for i in cols]
    for a in atoms:
        row = [
            a["rec"], str(a["serial"]), a["elem"], q(a["name"]), a["alt"] if a["alt"].strip() else ".", a["resn"],
            a.get("label_chain", a["chain"]), "1", str(a.get("label_seq", a["seq"])) if a["rec"] == "ATOM" else ".",
            a["icode"] if a["icode"].strip() else "?", "%.3f" % a["xyz"][0], "%.3f" % a["xyz"][1], "%.3f" % a["xyz"][2],
            "%.2f" % a["occ"], "%.2f" % a["b"], a["charge"] if a["charge"] else "?", str(a["seq"]), a["resn"], a["chain"],
            q(a["name"]), str(a["model"]),
        ]  # fmt: skip
        for item, text in a.get("raw", {}).items():  # verbatim item values (malformed-input generators)
            row[ITEMS.index(item)] = text
        out.append(" ".join(row[i] for i in cols) + " ")
    out.append("# ")
    return "\n".join(out) + "\n"


def pdb_text(atoms):
    lines = []
    models = []
    for a in atoms:  # file order = order of first appearance (not numeric order)
        if a["model"] not in models:
            models.append(a["model"])
    for m in models:
        if len(models) > 1:
            lines.append("MODEL     %4d" % m)
        prev = None
        for a in [x for x in atoms if x["model"] == m]:
            if prev is not None and prev != a["chain"]:
                lines.append("TER")
            prev = a["chain"]
            ln = build.fmt_atom(a["serial"], a["name"], a["resn"], a["chain"], a["seq"], a["icode"], a["xyz"], rec=a["rec"],
                                alt=a["alt"], occ=a["occ"], b=a["b"], elem=a["elem"])  # fmt: skip
            ln = ln + (a["charge"][::-1] if a["charge"] else "")  # PDB writes the charge as 1+ / 1-
            lines.append(ln)
        lines.append("TER")
        if len(models) > 1:
            lines.append("ENDMDL")
    lines.append("END")
    return "\n".join(lines) + "\n"
