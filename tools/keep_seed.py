#!/usr/bin/env python3
"""Confirm a sub-agent's seeded change and file it under /verif/seeded/<id>-<n>/.

    tools/keep_seed.py <PROP> <n> [--props C01 C02 ...] [--no-suite]

Confirms in the scratch worktree /tmp/wt/<PROP>: demo passes on the clean tree, fails with the
patch, pinned suite (151 stable tests) still passes with the patch.  Then runs the quick checks
(all by default) against a scratch copy with the patch (tools/seeded.py) and writes meta.json.
"""
import argparse, json, os, re, shutil, subprocess, sys

ap = argparse.ArgumentParser()
ap.add_argument("prop"); ap.add_argument("n")
ap.add_argument("--props", nargs="*")
ap.add_argument("--no-suite", action="store_true")
ap.add_argument("--skip-checks", action="store_true")
ap.add_argument("--round", type=int, default=1)
ns = ap.parse_args()
base = "/tmp/wt" if ns.round == 1 else f"/tmp/wt{ns.round}"
wt = f"{base}/{ns.prop}"; out = f"{base}/out/{ns.prop}"
patch = f"{out}/mut{ns.n}.diff"; demo = f"{out}/demo{ns.n}.py"; notes = f"{out}/notes{ns.n}.md"
def sh(cmd, **kw): return subprocess.run(cmd, shell=True, capture_output=True, text=True, **kw)
def demo_rc():
    return sh(f"cd {wt} && PYTHONPATH={wt} timeout 1500 /venv/bin/python {demo}").returncode
sh(f"git -C {wt} checkout -- . && git -C {wt} clean -fdq")
rc_clean = demo_rc()
ap_ = sh(f"git -C {wt} apply {patch}")
if ap_.returncode:
    print("patch does not apply", ap_.stderr); sys.exit(2)
rc_mut = demo_rc()
suite = None
if not ns.no_suite:
    r = sh(f"python3 /verif/tools/check_suite.py {wt}")
    suite = (r.returncode, r.stdout.strip()[-200:])
sh(f"git -C {wt} checkout -- . && git -C {wt} clean -fdq")
props = ns.props or sorted({ns.prop, "C03", "C12"})
ev = sh("true") if ns.skip_checks else sh(f"cd /verif && tools/seeded.py {patch} {' '.join(props)}")
caught = re.search(r"CAUGHT-BY: (.*)", ev.stdout)
caught = caught.group(1).split() if caught and caught.group(1) != "none" else []
sigs = [ln.strip() for ln in ev.stdout.splitlines() if ln.strip().startswith("violation")]
confirmed = rc_clean == 0 and rc_mut != 0 and (suite is None or suite[0] == 0)
print(f"round {ns.round} {ns.prop}-{ns.n}: demo clean rc={rc_clean}, with change rc={rc_mut}, suite={suite}, confirmed={confirmed}, caught by {caught}")
d = f"/verif/seeded/{ns.prop}-{int(ns.n) + 2 * (ns.round - 1)}"
if confirmed:
    os.makedirs(d, exist_ok=True)
    shutil.copy(patch, f"{d}/patch.diff"); shutil.copy(demo, f"{d}/demo.py")
    note = open(notes).read() if os.path.exists(notes) else ""
    meta = dict(breaks_property=ns.prop, source=f"independent sub-agent, round {ns.round} (property text + scratch worktree only)",
                needs_to_manifest=note[:1500],
                confirmed=dict(demo_rc_clean_tree=rc_clean, demo_rc_with_change=rc_mut,
                               pinned_suite_with_change=suite[1] if suite else "not run",
                               how=f"scratch worktree {wt}: git apply patch.diff; PYTHONPATH=<worktree> /venv/bin/python demo.py; python3 check_suite.py (151 baseline-stable tests)"),
                checks_run=props, tier="quick", seed=1, caught_by=caught, violation_lines=sigs[:8])
    json.dump(meta, open(f"{d}/meta.json", "w"), indent=1)
