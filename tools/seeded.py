#!/usr/bin/env python3
"""Run checks against a seeded change without touching /repo.

    tools/seeded.py <patch.diff> [--tier quick] [--seed 1] [props ...]

A scratch copy of /repo's tracked tree is made under /tmp, the patch is applied there and the
checks run with PYTHONPATH pointing at the copy (the editable install is overridden).  Prints,
per property, the exit status and the violation signatures.  The copy is removed afterwards.
"""
import argparse, os, shutil, subprocess, sys, tempfile

ap = argparse.ArgumentParser()
ap.add_argument("patch")
ap.add_argument("--tier", default="quick")
ap.add_argument("--seed", default="1")
ap.add_argument("props", nargs="*")
ns = ap.parse_args()
props = ns.props or [f"C{i:02d}" for i in range(1, 19)]
d = tempfile.mkdtemp(prefix="seedrun_")
try:
    subprocess.run(f"git -C /repo archive HEAD pdb2pqr | tar -x -C {d}", shell=True, check=True)
    r = subprocess.run(["patch", "-p1", "-s", "-d", d, "-i", os.path.abspath(ns.patch)], capture_output=True, text=True)
    if r.returncode:
        print("PATCH FAILED", r.stdout, r.stderr)
        sys.exit(2)
    env = dict(os.environ, PYTHONPATH=d, VERIF_SEED=ns.seed, VF_REPLAY_OUT=os.path.join(d, "replays"), VF_NOSHRINK="1",
               VF_EVIDENCE_OUT=os.path.join(d, "evidence"))
    caught = []
    for p in props:
        out = subprocess.run(["/venv/bin/python", "-m", "vf.run", p, "--tier", ns.tier], cwd="/verif", env=env,
                             capture_output=True, text=True)
        sigs = sorted({ln.split(":", 1)[0].replace("  violation ", "") + ":" + ln.split(":", 2)[1] if False else ln.strip()[:160]
                       for ln in out.stdout.splitlines() if ln.startswith("  violation")})
        print(f"{p} rc={out.returncode}" + ("" if out.returncode != 2 else " HARNESS-ERROR " + out.stdout[-300:]))
        for s in sigs[:4]:
            print("    ", s)
        if out.returncode == 1:
            caught.append(p)
    print("CAUGHT-BY:", " ".join(caught) or "none")
finally:
    shutil.rmtree(d, ignore_errors=True)
