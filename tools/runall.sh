#!/bin/bash
# usage: tools/runall.sh <tier> <seed> [props...]   -- runs checks sequentially, prints one line per property
cd "$(dirname "$0")/.."
tier=${1:-quick}; seed=${2:-1}; shift 2
props=${@:-C01 C02 C03 C04 C05 C06 C07 C08 C09 C10 C11 C12 C13 C14 C15 C16 C17 C18}
for p in $props; do
  out=$(VERIF_SEED=$seed VF_REPLAY_OUT=${VF_REPLAY_OUT:-/tmp/vf_replays_$seed} /venv/bin/python -m vf.run $p --tier $tier 2>&1)
  rc=$?
  echo "$p rc=$rc $(echo "$out" | grep -E "^$p tier" | cut -c1-140)"
  echo "$out" | grep -E "^  violation|HARNESS" | cut -c1-300
done
