#!/usr/bin/env python3
"""Run the repository's pinned offline suite inside a worktree and compare with the stable baseline.

    python3 tools/check_suite.py <worktree>

Exit 0 iff every test of /root/.vp/BASELINE.json stable_pass passes in <worktree>.
"""
import json, os, subprocess, sys, tempfile
import xml.etree.ElementTree as ET

wt = os.path.abspath(sys.argv[1])
out = tempfile.mktemp(suffix=".xml")
env = dict(os.environ, PYTHONPATH=wt)
env.pop("ELECTROSTATICS_PDB2PQR_VERIF", None)
cmd = ["/venv/bin/python", "-m", "pytest", "-ra", "-q", "-p", "no:cacheprovider", "--timeout=900",
       "--continue-on-collection-errors", f"--junitxml={out}"]
subprocess.run(cmd, cwd=wt, env=env, stdout=subprocess.DEVNULL, stderr=subprocess.DEVNULL)
passed = set()
try:
    for tc in ET.parse(out).getroot().iter("testcase"):
        if not any(ch.tag in ("failure", "error", "skipped") for ch in tc):
            passed.add(f"{tc.get('classname')}::{tc.get('name')}")
finally:
    if os.path.exists(out):
        os.remove(out)
base = json.load(open("/root/.vp/BASELINE.json"))["stable_pass"]
missing = [t for t in base if t not in passed]
print(f"{len(base) - len(missing)} of {len(base)} baseline-stable tests pass; now failing: {missing[:10]}")
sys.exit(1 if missing else 0)
