#!/usr/bin/env python3
"""Re-run the quick checks against every kept seeded change and update meta.json (caught_by).

    tools/reeval_seeds.py [seed-dir-names ...] [--all-props] [--seed=N]   (N != 1: report only, meta.json untouched)
"""
import json, os, re, subprocess, sys
allp = "--all-props" in sys.argv
seed = next((a.split("=", 1)[1] for a in sys.argv[1:] if a.startswith("--seed=")), "1")  # other seeds: report only
names = [a for a in sys.argv[1:] if not a.startswith("--")] or sorted(os.listdir("/verif/seeded"))
for name in names:
    d = f"/verif/seeded/{name}"
    meta = json.load(open(f"{d}/meta.json"))
    props = [f"C{i:02d}" for i in range(1, 19)] if allp else sorted(set([meta["breaks_property"]] + meta.get("also_run", [])))
    ev = subprocess.run(f"cd /verif && tools/seeded.py --seed {seed} {d}/patch.diff {' '.join(props)}", shell=True, capture_output=True, text=True)
    m = re.search(r"CAUGHT-BY: (.*)", ev.stdout)
    caught = m.group(1).split() if m and m.group(1) != "none" else []
    if seed != "1":
        print(name, f"(seed {seed}) caught by", caught or "NONE")
        continue
    meta["checks_run"] = props
    meta["caught_by"] = caught
    meta["violation_lines"] = [ln.strip()[:200] for ln in ev.stdout.splitlines() if ln.strip().startswith("violation")][:8]
    json.dump(meta, open(f"{d}/meta.json", "w"), indent=1)
    print(name, "caught by", caught or "NONE")
