#!/usr/bin/env python3
"""Print the markdown table of seeded changes (from seeded/*/meta.json) for DESIGN.md."""
import json, os, re
rows = []
for name in sorted(os.listdir("/verif/seeded")):
    m = json.load(open(f"/verif/seeded/{name}/meta.json"))
    note = m.get("needs_to_manifest", "")
    lines = [ln.strip("# ").strip() for ln in note.splitlines() if ln.strip()]
    title = lines[0][:110] if lines else ""
    files = sorted(set(re.findall(r"^\+\+\+ b/(\S+)", open(f"/verif/seeded/{name}/patch.diff").read(), re.M)))
    rows.append((name, ", ".join(f.replace("pdb2pqr/", "") for f in files), title, " ".join(m.get("caught_by", [])) or "NONE"))
print("| seed | file(s) | change (sub-agent's title) | caught by (quick tier, seed 1) |")
print("|---|---|---|---|")
for r in rows:
    print("| " + " | ".join(x.replace("|", "/") for x in r) + " |")
