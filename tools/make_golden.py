#!/usr/bin/env python3
"""(Re)generate the pinned support matrix vf/data/golden_support.json from the CURRENT tree.

Only to be run on a tree that is known to be good (it was run on the repaired tree); the file is
committed and never written by a check."""
import json, sys
sys.path.insert(0, "/verif")
from vf import ffmodel
out = {}
for ff in ffmodel.FFS:
    tab = ffmodel.builtin(ff)
    out[ff] = {state: sorted(tab[state]) for state in sorted(tab) if state in set(ffmodel.universe())}
json.dump(out, open("/verif/vf/data/golden_support.json", "w"), indent=0, sort_keys=True)
print({ff: len(v) for ff, v in out.items()})

# pinned naming map: (force field, state, canonical atom) -> native (residue, atom) names
nat = {}
uni = set(ffmodel.universe())
for ff in ffmodel.FFS:
    tab = ffmodel.builtin(ff)
    nat[ff] = {state: {a: [v[2], v[3]] for a, v in sorted(tab[state].items())} for state in sorted(tab) if state in uni}
json.dump(nat, open("/verif/vf/data/golden_native.json", "w"), indent=0, sort_keys=True)
print({ff: sum(len(x) for x in v.values()) for ff, v in nat.items()})
