#!/usr/bin/env python3
"""Run the pinned suite (guard off) and compare with /root/.vp/BASELINE.json stable_pass.

    python3 tools/baseline.py [junit-out]
"""
import json, os, subprocess, sys, tempfile
import xml.etree.ElementTree as ET

out = sys.argv[1] if len(sys.argv) > 1 else tempfile.mktemp(suffix=".xml")
env = dict(os.environ)
env.pop("ELECTROSTATICS_PDB2PQR_VERIF", None)
cmd = ["/venv/bin/python", "-m", "pytest", "-ra", "-q", "-p", "no:cacheprovider", "--timeout=900",
       "--continue-on-collection-errors", f"--junitxml={out}"]
subprocess.run(cmd, cwd="/repo", env=env, stdout=subprocess.DEVNULL, stderr=subprocess.DEVNULL)
passed = set()
for tc in ET.parse(out).getroot().iter("testcase"):
    if not any(ch.tag in ("failure", "error", "skipped") for ch in tc):
        passed.add(f"{tc.get('classname')}::{tc.get('name')}")
base = json.load(open("/root/.vp/BASELINE.json"))["stable_pass"]
missing = [t for t in base if t not in passed]
print(f"baseline {len(base)} stable tests; {len(base) - len(missing)} pass now; missing: {missing[:10]}")
sys.exit(1 if missing else 0)
